#!/bin/bash
# usage: verify_seed.sh <worktree> <k> <seed-id> <property>
# Confirms a seeded change independently: applies out/change<k>.diff in the scratch worktree, runs the
# baseline suite (TestBlockCircuitProver excluded: it fails on the unchanged tree), runs the demonstration
# with and without the change, runs the /verif check with the change applied to /repo, stores the result
# under /verif/seeded/<seed-id>/.
set -u
if [ -n "$(git -C /repo status --porcelain)" ]; then echo "refusing: /repo has uncommitted changes"; exit 2; fi
wt=$1; k=$2; id=$3; prop=$4
export GOFLAGS=-mod=mod GOPROXY=off GOSUMDB=off GOTOOLCHAIN=local
out=/verif/seeded/$id; mkdir -p $out
mod=$wt/gnark-plonky2-verifier
cd $wt && git checkout -q -- . 2>/dev/null
demo=$wt/out/demo${k}_test.go
place=$(head -6 $demo | grep -o -m1 'gnark-plonky2-verifier/[^ ]*_test\.go' | head -1)
runline=$(head -6 $demo | grep -m1 'go test' | grep -oE '([A-Z_0-9]+=[^ ]+ +)*go test[^()]*' | head -1 | sed -E 's/ *\\$//')
[ -z "$place" ] && { echo "cannot parse demo placement"; exit 2; }
log=$out/verify.log; : > $log
git apply $wt/out/change$k.diff || { echo "patch does not apply" | tee -a $log; exit 2; }
echo "== baseline suite with the change" >> $log
(cd $mod && go build ./... >> $log 2>&1 && go test -vet=off -count=1 -timeout 25m -skip TestBlockCircuitProver ./... >> $log 2>&1); base=$?
echo "baseline exit=$base" >> $log
cp $demo $wt/$place
echo "== demonstration WITH the change: $runline" >> $log
(cd $mod && eval "$runline" >> $log 2>&1); with=$?
echo "demo-with-change exit=$with" >> $log
git apply -R $wt/out/change$k.diff
echo "== demonstration WITHOUT the change" >> $log
(cd $mod && eval "$runline" >> $log 2>&1); without=$?
echo "demo-without-change exit=$without" >> $log
rm -f $wt/$place
git checkout -q -- . 2>/dev/null
cp $wt/out/change$k.diff $out/patch.diff
cp $demo $out/$(basename $place)
cp $wt/out/change$k.md $out/description.md 2>/dev/null
echo "== /verif check with the change applied to /repo" >> $log
# the 4th argument may list several properties (comma separated): the seed counts as detected if any check exits 1
: > $out/check_output.txt; chk=0; detected_by=""
if git -C /repo apply $out/patch.diff; then
  for pp in $(echo $prop | tr ',' ' '); do
    (cd /verif && GOVC_OUT=/tmp/seedout ./bin/govc check $pp >> $out/check_output.txt 2>&1); ex=$?
    echo "check $pp exit=$ex" >> $out/check_output.txt
    if [ $ex -eq 1 ]; then chk=1; detected_by="$detected_by $pp"; fi
    if [ $ex -ne 0 ] && [ $chk -eq 0 ]; then chk=$ex; fi
  done
  git -C /repo apply -R $out/patch.diff
fi
echo $chk > $out/check_exit.txt
python3 - <<PY
import json
json.dump({"seed": "$id", "property": "$prop", "demo_file": "$(basename $place)", "demo_place": "$place", "demo_cmd": "$runline",
  "baseline_suite_exit_with_change": $base, "demo_exit_with_change": $with, "demo_exit_without_change": $without,
  "confirmed": ($base == 0 and $with != 0 and $without == 0), "check_exit_with_change": $chk,
  "detected": $chk == 1, "detected_by": "$detected_by".split(),
  "needs_to_manifest": open("$out/description.md").read()[:1500] if __import__("os").path.exists("$out/description.md") else "",
  "ran": ["go build ./... && go test -vet=off -count=1 -timeout 25m -skip TestBlockCircuitProver ./... (with change)", "$runline (with and without change)", "git -C /repo apply patch.diff; ./bin/govc check $prop; git -C /repo checkout -- ."]},
  open("$out/meta.json","w"), indent=1)
PY
echo "seed $id: baseline=$base demo_with=$with demo_without=$without check_exit=$chk"
