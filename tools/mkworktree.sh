#!/bin/sh
# usage: mkworktree.sh <name>   -> creates /tmp/wt/<name>, a detached worktree of /repo HEAD without the contract files
set -e
d=/tmp/wt/$1
mkdir -p /tmp/wt
git -C /repo worktree add --detach "$d" HEAD >/dev/null 2>&1
find "$d" -name '*_verif.go' -delete
cd "$d" && git ls-files -d | xargs -r git update-index --assume-unchanged
echo "$d"
