#!/bin/bash
cd /verif
for p in $(python3 -c "import json;print(' '.join(c['property_id'] for c in json.load(open('MANIFEST.json'))['checks']))"); do
  s=$(date +%s); ./bin/govc check $p --tier thorough > /tmp/thor_$p.log 2>&1; ex=$?; echo "$p exit=$ex $(( $(date +%s)-s ))s $(tail -1 /tmp/thor_$p.log | cut -c1-150)"
done
