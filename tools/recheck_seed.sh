#!/bin/bash
# usage: recheck_seed.sh <seed-id> [props]  -- re-run the checks on an already stored seed and update meta.json
set -u
id=$1; out=/verif/seeded/$id
if [ -n "$(git -C /repo status --porcelain)" ]; then echo "refusing: /repo has uncommitted changes"; exit 2; fi
prop=${2:-$(python3 -c "import json;print(json.load(open('$out/meta.json'))['property'])")}
: > $out/check_output.txt; chk=0; detected_by=""
git -C /repo apply $out/patch.diff || exit 2
for pp in $(echo $prop | tr ',' ' '); do
  (cd /verif && GOVC_OUT=/tmp/seedout ./bin/govc check $pp >> $out/check_output.txt 2>&1); ex=$?
  echo "check $pp exit=$ex" >> $out/check_output.txt
  if [ $ex -eq 1 ]; then chk=1; detected_by="$detected_by $pp"; fi
  if [ $ex -ne 0 ] && [ $chk -eq 0 ]; then chk=$ex; fi
done
git -C /repo apply -R $out/patch.diff
echo $chk > $out/check_exit.txt
python3 - <<PY
import json
m=json.load(open("$out/meta.json"))
m["check_exit_with_change"]=$chk; m["detected"]=($chk==1); m["detected_by"]="$detected_by".split()
json.dump(m,open("$out/meta.json","w"),indent=1)
PY
echo "seed $id: check_exit=$chk detected_by=$detected_by"
grep "VIOLATION" $out/check_output.txt | head -3
