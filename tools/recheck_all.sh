#!/bin/bash
# re-runs the checks on every stored seed (patch applied to /repo, undone afterwards); updates meta.json
cd /verif
for d in seeded/*/; do id=$(basename $d); ./tools/recheck_seed.sh $id 2>&1 | head -1; done
