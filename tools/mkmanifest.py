#!/usr/bin/env python3
"""Regenerates /verif/MANIFEST.json from the table below (kept in one place so that the
manifest is valid at every commit)."""
import json, subprocess

TRUST = ("Trusted base: go/packages+go/ssa (x/tools v0.29.0) faithful to the compiler; govc's SSA executor; "
         "assumed contracts of gnark v0.9.1 frontend.API / rangecheck / bits, math/big, gnark-crypto goldilocks.Element "
         "(each one actually used is listed in the evidence file under trusted_base); SMT solvers z3 5.1.0 / cvc5 1.0.3 / z3 4.8.12; "
         "integers are mathematical (field ops mod r, unsigned ops mod 2^N); sequential execution; slices have value semantics on append.")

claimed = {
 "C05": dict(text="Deductive proof, function by function, that every witnessed Goldilocks operation (MulAdd, Reduce/ReduceWithMaxBits, Inverse, RangeCheck) is wrap-free and single-valued: in SOUND mode hint outputs are arbitrary field elements and the postcondition (result = integer specification) must follow from the emitted constraints alone; in COMPLETE mode honest hint values must satisfy every constraint and fit every range check. Non-reducing helpers carry the no-wrap condition as a precondition that is an obligation at every call site reached from the functions under contract.",
             note=TRUST + " Call sites are covered only inside functions that are under contract (listed in evidence.functions_under_contract); the rest of the call graph is not claimed.",
             technique="contracts + self-generated VCs (weakest-precondition style symbolic execution of go/ssa) + SMT (z3/cvc5), SOUND/COMPLETE circuit semantics", design="§4 C05"),
 "C06": dict(text="Deductive proof that RangeCheck accepts exactly [0,p) and rangeCheckerCheck/RangeCheckWithMaxBits exactly [0,2^n) for a symbolic range-checker type in {native, commit, bit-decomposition}; the commit case is carried by the append-only collected list, the contract of checkCollected (every collected entry is aligned and checked) and New's postcondition that checkCollected is deferred.",
             note=TRUST + " The step from 'collected and checked at finalisation' to 'in range' for the commit checker is an assume-guarantee rule of the engine (DESIGN §3.2); getOptimalBasewidth's result is trusted to agree with gnark's own choice when it equals 16; equivalence of gnark back ends is assumed.",
             technique="contracts + VC generation over go/ssa + SMT; symbolic checker type", design="§4 C06"),
 "C07": dict(text="Deductive proof (SOUND and COMPLETE) that Add, Sub, Mul, MulAdd, Reduce, ReduceWithMaxBits, Inverse equal the Goldilocks field specification for all canonical operands, that the non-reducing variants are exact over the integers under their no-wrap precondition, and that the four hint functions compute the quotient/remainder/limbs/inverse their contracts state.",
             note=TRUST + " gnark-crypto's Element.Inverse is an assumed contract (x*inv = 1 mod p, inverse of 0 is 0).",
             technique="contracts + VC generation over go/ssa + SMT", design="§4 C07"),
 "C03": dict(text="Deductive proof (SOUND mode, every witness) on the real CircuitFixed.Define that, whenever Define returns without error, the sixteen plonky2 public inputs are each below 2^32, each of the four public values equals the big-endian packing of its four limbs over the integers (no wrap in the BN254 field), and is below 2^128; injectivity of the packing is then linear arithmetic.",
             note=TRUST + " VerifierChip.Verify is used through a thin contract (it is not needed for this statement). The Solidity side (secondHash truncation) is outside Go and not covered.",
             technique="contracts + VC generation over go/ssa + SMT", design="§4 C03"),
 "C04": dict(text="The two wrapper circuits are verified as gnark circuit roots: their fields are classified from the struct tags of the real types (public / build-time constant / prover-chosen), and the postcondition key-pinned demands that every leaf of the verifier key is a constant, a public input, or constrained equal to a term over such values. On this tree the obligation fails for both circuits; this is the recorded known finding F4 (replayed on the real circuit by findings/F4/run.sh), so the check prints KNOWN-FINDING and exits 0; any other failing obligation is a violation.",
             note=TRUST + " 'pinned' is decided syntactically over the path condition (equalities with terms free of secret inputs); determinedness through the Fiat-Shamir hash is not considered pinning.",
             technique="contracts on circuit roots + tag classification + syntactic determinedness check; known finding by obligation name", design="§4 C04"),
 "C08": dict(text="Deductive proof (SOUND and COMPLETE) that every GF(p^2) gadget and every degree-2-algebra gadget returns the mathematically defined canonical result: add, sub, mul, scalar mul, mul-add, sub-mul, zero test, Lookup/Lookup2 selection, inversion and division (zero rejected; product with the argument is 1 whenever the norm is invertible), exponentiation (= plonky2's exp_u64 square-and-multiply recursion), ReduceWithPowers (= Horner recursion, unbounded length), InnerProductExtension (= exact accumulated sum, up to 256 pairs), the four algebra operations and PartialInterpolateExtAlgebra (= plonky2's fold, unbounded length). Loops are cut at inductive invariants over recursive specification functions.",
             note=TRUST + " Not proved: N(a) != 0 for every a != 0 (7 is a quadratic non-residue mod p) - the inverse postcondition is stated under hasInv == 1; a^e = pow_sm(a,e) is the definition plonky2 itself uses. Polynomial witness lemmas are decided by govc's exact polynomial normaliser (back end 'poly') or SMT.",
             technique="contracts + loop invariants + recursive spec functions (define-funs-rec) + SMT / exact polynomial identity check", design="§4 C08"),
 "C17": dict(text="Deductive proof that rangeCheckProof establishes canonicity of the whole proof view - all seven opening lists, every queried leaf element, every fold evaluation, every final-polynomial coefficient and the proof-of-work witness (13 loops, 3 nested, each with a quantified invariant; list lengths symbolic) - and that VerifierChip.Verify calls it on its own proof argument, for every range-checker type.",
             note=TRUST + " Verify's other callees are used through thin trusted contracts (they are irrelevant to this statement).",
             technique="contracts + quantified loop invariants over symbolic slices + SMT", design="§4 C17"),
 "C09": dict(text="Deductive proof (SOUND: the only accepted output; COMPLETE: the honest output is accepted, all lazily reduced accumulations fit) that the in-circuit Goldilocks Poseidon permutation equals the layer-by-layer specification of plonky2's poseidon.rs (constant, S-box x^7, MDS, and the fast partial rounds) over the module's constant tables, and that the sponge (HashNToMNoPad: rate 8, overwrite mode, any input/output length, loops cut at invariants over recursive specification functions; HashNoPad: inputs reduced first) equals plonky2's hash_n_to_m_no_pad.",
             note=TRUST + " The constant tables are the ones in goldilocks_constants.go (their equality with plonky2's published tables cannot be checked offline; any runtime write to them makes the proof fail). HashNoPad's result is stated over the ghost sequence of reduced inputs.",
             technique="contracts + opaque layer specifications + loop invariants over recursive spec functions + SMT", design="§4 C09"),
 "C10": dict(text="Deductive proof that BN254Chip.Poseidon equals the round-by-round transcription of the in-repo Rust reference (crypto/plonky2_bn128/src/poseidon_bn128.rs), that HashNoPad / HashOrNoop / TwoToOne equal config.rs (overwrite sponge over 3x64-bit little-endian packing, short-input shortcut, compression), that ToVec is the exact 5x56-bit decomposition of the canonical value, plus linear-arithmetic lemmas for injectivity of the 3-element packing and of the 56-bit chunking, and a table obligation comparing all 512 Go constants with poseidon_bn128_constants.rs.",
             note=TRUST + " Inputs are canonical Goldilocks values (callers prove it).",
             technique="contracts + opaque permutation functions + recursive sponge spec + SMT; table comparison with the Rust source", design="§4 C10"),
 "C11": dict(text="Deductive proof that every challenger method performs exactly the plonky2 duplex-sponge transition on the (state, input buffer, output buffer) view, that sequences of observations/squeezes equal the corresponding recursive specification, and that VerifierChip.GetChallenges returns betas, gammas, alphas, zeta, FRI alpha, FRI betas, the proof-of-work response and the query indices equal to the specification transcript fed, in order, with circuit digest, public-input hash, wires cap, Zs/partial-products cap, quotient cap, all openings (plonky2 order), each commit-phase cap, the final polynomial and the proof-of-work witness.",
             note=TRUST + " 'Every observed value influences every later challenge' is a property of the sponge construction (the specification), not proved; the openings enter the transcript through the value returned by ToOpenings (a ghost result with the proved segment-wise equality to the proof's lists).",
             technique="contracts on a mutable receiver (modifies/old), opaque transition functions, recursive transcript spec, ghost call results + SMT", design="§4 C11"),
 "C12": dict(text="Deductive proof (SOUND and COMPLETE, any path length) that verifyMerkleProofToCapWithCapIndex accepts exactly when folding the leaf hash (PoseidonBN128 hash_or_noop) with the siblings, ordered by the index bits, yields the cap entry selected by the four cap-index bits (both bit vectors constrained boolean; 16-entry cap and 4 cap bits or the circuit is refused); verifyInitialProof establishes this for every oracle, and verifyQueryRound for the index bits of the reduced query index.",
             note=TRUST + " Hash functions are the specification functions proved equal to the chip under C10; that only a committed leaf can reach a cap entry is collision resistance (assumed). The wiring of the per-step Merkle openings inside the round loop is checked for bounds and shape only.",
             technique="contracts + loop invariant over a recursive Merkle-fold spec + SMT", design="§4 C12"),
 "C14": dict(text="Deductive proof that assertLeadingZeros enforces response < 2^(64 - proof_of_work_bits) for every difficulty 1..63 and every range-checker type, that VerifyFriProof applies it to the transcript's proof-of-work response, and that this response is the challenge drawn after the final polynomial and the supplied proof-of-work witness were observed (GetFriChallenges / GetChallenges transcript contracts).",
             note=TRUST + " Inherits the deferred-range-check rule of C06 for the commit checker (64 - bits must be 16-aligned there, else the circuit is refused).",
             technique="contracts + SMT; uint64 arithmetic modelled exactly", design="§4 C14"),
 "C20": dict(text="Deductive proof that validateFriProofShape establishes plonky2's validate_fri_proof_shape predicate (cap sizes, number of evaluation proofs, leaf lengths per oracle incl. salt, sibling counts per tree and per step via the running arity sum, evaluations per step = arity, final-polynomial length), that VerifyFriProof additionally enforces the number of query rounds and query indices, that Merkle checks refuse caps other than 16 entries / 4 cap bits, that query rounds refuse arities other than 4, and that the FRI instance lists exactly plonky2's oracles and polynomial ranges; index-out-of-range in the remaining code is a refusal (Go panic).",
             note=TRUST + " Not decided by this technique: rejection of over-long opening lists and caps beyond the checked sizes (no explicit check exists; rejection is cryptographic). The PLONK-side index checks (partial products) are not yet under contract.",
             technique="contracts on plain Go shape checks + quantified loop invariants + SMT", design="§4 C20"),
 "C16": dict(text="Deductive proof (SOUND and COMPLETE) on the real plonk.go: evalL0 is the first Lagrange polynomial, checkPartialProducts emits exactly the chunked partial-product relation (ragged last chunk included), evalVanishingPoly combines the boundary terms, the permutation chunks and the gate constraints by the alpha powers (reduceWithPowers = Horner), and PlonkChip.Verify accepts exactly when vanishing(zeta) equals Z_H(zeta) times the quotient recombined from its chunks; results are canonical GF(p^2) values.",
             note=TRUST + " The gate constraint vector is used through the thin contract of EvaluateGateConstraints (length and canonicity only; the gate formulas are C15). In COMPLETE mode the function's own AssertIsEqual calls are the acceptance premise (flag acceptance-asserts).",
             technique="contracts + VC generation over go/ssa + SMT; recursive GF(p^2) specifications", design="§4 C16"),
 "C18": dict(text="Deductive proof on the real GateInstanceFromId, its regexp table and the deserialize* handlers, with the code's patterns translated to SMT-LIB regular languages: for each of the 14 identifier families plonky2 emits for supported gates (symbolic decimal parameters) the call returns, for every enumerated map iteration order, the gate type named with exactly the stated parameters and does not panic; for 11 families of identifiers of unimplemented gates (lookup, lookup table, the u32 crate gates, comparison, range check, and Exponentiation/RandomAccess/CosetInterpolation with D != 2) every path panics.",
             note=TRUST + " Models assumed: regexp (RE2 subset -> RegLan; FindStringSubmatch = leftmost match, decided structurally for identifiers that are concatenations of literals and parameters, otherwise any decomposition), strconv.Atoi/ParseUint on digit strings, strings.Split/TrimSpace uninterpreted (the weight list premise idlist says every trimmed piece is a decimal below 2^64; parsed weight values are not part of the statement). Iteration orders: insertion order and its reversal (quick), all 14 rotations and the reversal (thorough); any order visits a subset of the non-matching keys before the matching one. Parameters are bounded by 2^63 (larger values are refused by Atoi, not misbound). The identifier families are those of plonky2 at the revision the repository vendors (crypto/plonky2_u32) and of plonky2's Debug derive; hiding-refusal in ReadCommonCircuitData is part of C19's contract of that function.",
             technique="contracts + VC generation over go/ssa + SMT strings/regular languages (z3, cvc5 --strings-exp) + structural regex walk", design="§4 C18"),
 "C13": dict(text="Deductive proof on the real FRI gadgets that: expFromBitsConstBase is the bit-selected product of base^(2^i) and calculateSubgroupX is g * w^bitreverse(index) (SOUND and COMPLETE, any bit length up to 62); fromOpeningsAndAlpha and finalPolyEval are the Horner reductions of plonky2; friCombineInitial, for the two opening batches of a plonky2 instance, equals alpha^{n_b}*sum + (reduce(evals_b, alpha) - opening_b)/(x - point_b) folded over the batches, with evals_b exactly the queried leaf values named by the batch (SOUND and COMPLETE); interpolate is the barycentric formula l(x)*sum_i y_i*w_i/(x - x_i) for any number of points (SOUND and COMPLETE); computeEvaluation (arity 16, SOUND) permutes the evaluations by 4-bit reversal, builds the coset x*(g^-1)^rev(index)*g^i, takes the weights 1/prod_{j!=i}(x_i - x_j) and returns the interpolant at beta.",
             note=TRUST + " The inverse and the quotient in GF(p^2) are uninterpreted spec functions characterised by two uniqueness axioms (a fact of the field, assumed). An interpolation point equal to a domain point is rejected by the circuit (division by zero is refused, as C08 demands) where the reference returns y_i - the two differ only on that set of betas. The composition inside verifyQueryRound (consistency assertion per round, x -> x^16, comparison with the final polynomial) is executed symbolically for bounds, canonicity and the Merkle obligations (C12, C20) but its accept/reject relation is not summarised in a postcondition: the round loop's closed form needs a recursion over nested step data that the specification language cannot express. friCombineInitial is specified for exactly two batches (what GetInstance produces; a precondition at its call sites).",
             technique="contracts + VC generation over go/ssa + SMT; recursive GF(p^2) specifications; ghost call arguments/results", design="§4 C13"),
 "C15": dict(text="Deductive proof (SOUND and COMPLETE, symbolic gate parameters, arbitrary canonical GF(p^2) wires and constants) that EvalUnfiltered of eleven gate types - arithmetic, extension arithmetic, extension multiplication, base-sum, constant, exponentiation, noop, public input, random access (per bits 0..6), reducing, extension reducing - returns, constraint by constraint, the gate polynomial of plonky2 written over the GF(p^2) specification functions; that computeFilter is plonky2's compute_filter (product over the selector group except the row, times UNUSED_SELECTOR - s when there are several selectors) and that evalFiltered multiplies every unfiltered constraint by that filter after stripping the selector constants (SOUND mode, dynamic gate call through the interface-method contract).",
             note=TRUST + " NOT covered at this commit: PoseidonGate, PoseidonMdsGate and CosetInterpolationGate evaluators (no contract; at the dynamic call their results are assumed canonical) and the position-wise summation in EvaluateGateConstraints (thin contract: length and canonicity). Gate parameters are bounded by 2^20 and wire vectors are assumed long enough in COMPLETE mode (circuit-configuration facts). 'Vanish on honestly generated rows' is a property of plonky2's polynomials, not of this code, and is not restated. The exponentiation multiplier is specified in the Go association; lemma ex_select_form proves it equal to plonky2's form.",
             technique="contracts + VC generation over go/ssa + SMT; opaque GF(p^2) operations; per-parameter case split for the random-access gate", design="§4 C15"),
 "C19": dict(text="Deductive proof (plain Go, all inputs) that the raw-structure-to-assignment functions are position preserving: DeserializeMerkleCap, StringArrayToHashBN254Array, DeserializeOpeningSet, DeserializeFriProof (four nested loops), DeserializeProofWithPublicInputs, DeserializeVerifierOnlyCircuitData, the Uint64Array* conversions, MerkleProofRaw.UnmarshalJSON's copy, and ReadCommonCircuitData (every configuration field, selector groups, gate ids, k_is; hiding refused): each output element equals the input element at the corresponding position, a hash string becomes exactly the *big.Int that SetString(s, 10) yields and a string SetString refuses leaves a nil *big.Int (no default value).",
             note=TRUST + " encoding/json is an assumed external (the decoded raw structure is arbitrary); that gnark refuses a nil *big.Int when the assignment becomes a witness is gnark's behaviour and assumed; inner lists of opening pairs longer than two elements are read by their first two elements (the contract states len >= 2; longer lists are not refused - an observation outside the property's list of malformed values). Slices stored inside sequences at symbolic positions are modelled inline (no aliasing).",
             technique="contracts + VC generation over go/ssa + SMT; quantified loop invariants over nested sequences", design="§4 C19"),
}

titles = {}
for l in open('/verif/properties.jsonl'):
    p = json.loads(l); titles[p['id']] = p['title']

pending_reason = {
 # filled in / removed as checks are built; every unclaimed property must have a reason
}

checks = []
for pid in sorted(claimed):
    c = claimed[pid]
    checks.append({
        "property_id": pid,
        "quick_cmd": f"./bin/govc check {pid} --tier quick",
        "thorough_cmd": f"./bin/govc check {pid} --tier thorough",
        "evidence_file": f"/verif/evidence/{pid}.json",
        "replay_cmd_template": "./bin/govc replay {path}",
        "engine": "govc",
        "level_claimed": {"category": "proof", "text": c["text"], "design_ref": c["design"]},
        "level_note": c["note"],
        "technique": c["technique"],
    })
na = []
for pid in sorted(titles):
    if pid not in claimed:
        na.append({"property_id": pid, "reason": pending_reason.get(pid, "not claimed at this commit: contracts for the functions this property depends on are not yet discharged by govc (work in progress, see DESIGN.md §9 build order); no check is registered rather than registering an unsound one")})

hooks = subprocess.run(["git", "-C", "/repo", "log", "--format=%h %s"], capture_output=True, text=True).stdout.splitlines()
hook_commits = [h.split()[0] for h in hooks if "verif hook" in h]
manifest = {
 "version": 1,
 "setup_cmd": "cd /verif/tool && GOFLAGS=-mod=mod GOPROXY=off GOSUMDB=off GOTOOLCHAIN=local go build -o /verif/bin/govc ./cmd/govc",
 "hooks": {
   "guard": "verif",
   "enable": "govc loads /repo/gnark-plonky2-verifier with -tags verif; the hook files are comment-only contract files (*_verif.go) and add no executable code",
   "baseline_off_cmd": "cd /repo/gnark-plonky2-verifier && GOFLAGS=-mod=mod GOPROXY=off GOSUMDB=off GOTOOLCHAIN=local go test -json -vet=off -count=1 -timeout 25m ./...",
   "source_commits": hook_commits,
   "add_only": True,
 },
 "engines": [{"name": "govc", "path": "/verif/tool/cmd/govc", "serves_properties": sorted(claimed), "kind_free_text": "contract-based deductive verifier for the Go module: contracts in //@ comment files, VC generation by symbolic execution of go/ssa, SMT back ends z3-new/cvc5/z3"}],
 "checks": checks,
 "not_applicable": na,
 "notes": "Exit codes of govc check: 0 all obligations discharged (known findings printed as KNOWN-FINDING), 1 VIOLATION (a failed obligation; an obligation that can no longer be generated - function outside the supported subset, unbound contract, vacuous precondition - is reported the same way with no-failing-input-found). Fix commits in /repo: see /verif/known_findings.txt.",
}
json.dump(manifest, open('/verif/MANIFEST.json', 'w'), indent=1)
print("claimed:", sorted(claimed), "not_applicable:", len(na))
