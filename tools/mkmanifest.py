#!/usr/bin/env python3
"""Regenerates /verif/MANIFEST.json from the table below (kept in one place so that the
manifest is valid at every commit)."""
import json, subprocess

TRUST = ("Trusted base: go/packages+go/ssa (x/tools v0.29.0) faithful to the compiler; govc's SSA executor; "
         "assumed contracts of gnark v0.9.1 frontend.API / rangecheck / bits, math/big, gnark-crypto goldilocks.Element "
         "(each one actually used is listed in the evidence file under trusted_base); SMT solvers z3 5.1.0 / cvc5 1.0.3 / z3 4.8.12; "
         "integers are mathematical (field ops mod r, unsigned ops mod 2^N); sequential execution; slices have value semantics on append.")

claimed = {
 "C05": dict(text="Deductive proof, function by function, that every witnessed Goldilocks operation (MulAdd, Reduce/ReduceWithMaxBits, Inverse, RangeCheck) is wrap-free and single-valued: in SOUND mode hint outputs are arbitrary field elements and the postcondition (result = integer specification) must follow from the emitted constraints alone; in COMPLETE mode honest hint values must satisfy every constraint and fit every range check. Non-reducing helpers carry the no-wrap condition as a precondition that is an obligation at every call site reached from the functions under contract.",
             note=TRUST + " Call sites are covered only inside functions that are under contract (listed in evidence.functions_under_contract); the rest of the call graph is not claimed.",
             technique="contracts + self-generated VCs (weakest-precondition style symbolic execution of go/ssa) + SMT (z3/cvc5), SOUND/COMPLETE circuit semantics", design="§4 C05"),
 "C06": dict(text="Deductive proof that RangeCheck accepts exactly [0,p) and rangeCheckerCheck/RangeCheckWithMaxBits exactly [0,2^n) for a symbolic range-checker type in {native, commit, bit-decomposition}; the commit case is carried by the append-only collected list, the contract of checkCollected (every collected entry is aligned and checked) and New's postcondition that checkCollected is deferred.",
             note=TRUST + " The step from 'collected and checked at finalisation' to 'in range' for the commit checker is an assume-guarantee rule of the engine (DESIGN §3.2); getOptimalBasewidth's result is trusted to agree with gnark's own choice when it equals 16; equivalence of gnark back ends is assumed.",
             technique="contracts + VC generation over go/ssa + SMT; symbolic checker type", design="§4 C06"),
 "C07": dict(text="Deductive proof (SOUND and COMPLETE) that Add, Sub, Mul, MulAdd, Reduce, ReduceWithMaxBits, Inverse equal the Goldilocks field specification for all canonical operands, that the non-reducing variants are exact over the integers under their no-wrap precondition, and that the four hint functions compute the quotient/remainder/limbs/inverse their contracts state.",
             note=TRUST + " gnark-crypto's Element.Inverse is an assumed contract (x*inv = 1 mod p, inverse of 0 is 0).",
             technique="contracts + VC generation over go/ssa + SMT", design="§4 C07"),
}

titles = {}
for l in open('/verif/properties.jsonl'):
    p = json.loads(l); titles[p['id']] = p['title']

pending_reason = {
 # filled in / removed as checks are built; every unclaimed property must have a reason
}

checks = []
for pid in sorted(claimed):
    c = claimed[pid]
    checks.append({
        "property_id": pid,
        "quick_cmd": f"./bin/govc check {pid} --tier quick",
        "thorough_cmd": f"./bin/govc check {pid} --tier thorough",
        "evidence_file": f"/verif/evidence/{pid}.json",
        "replay_cmd_template": "./bin/govc replay {path}",
        "engine": "govc",
        "level_claimed": {"category": "proof", "text": c["text"], "design_ref": c["design"]},
        "level_note": c["note"],
        "technique": c["technique"],
    })
na = []
for pid in sorted(titles):
    if pid not in claimed:
        na.append({"property_id": pid, "reason": pending_reason.get(pid, "not claimed at this commit: contracts for the functions this property depends on are not yet discharged by govc (work in progress, see DESIGN.md §9 build order); no check is registered rather than registering an unsound one")})

hooks = subprocess.run(["git", "-C", "/repo", "log", "--format=%h %s"], capture_output=True, text=True).stdout.splitlines()
hook_commits = [h.split()[0] for h in hooks if "verif hook" in h]
manifest = {
 "version": 1,
 "setup_cmd": "cd /verif/tool && GOFLAGS=-mod=mod GOPROXY=off GOSUMDB=off GOTOOLCHAIN=local go build -o /verif/bin/govc ./cmd/govc",
 "hooks": {
   "guard": "verif",
   "enable": "govc loads /repo/gnark-plonky2-verifier with -tags verif; the hook files are comment-only contract files (*_verif.go) and add no executable code",
   "baseline_off_cmd": "cd /repo/gnark-plonky2-verifier && GOFLAGS=-mod=mod GOPROXY=off GOSUMDB=off GOTOOLCHAIN=local go test -json -vet=off -count=1 -timeout 25m ./...",
   "source_commits": hook_commits,
   "add_only": True,
 },
 "engines": [{"name": "govc", "path": "/verif/tool/cmd/govc", "serves_properties": sorted(claimed), "kind_free_text": "contract-based deductive verifier for the Go module: contracts in //@ comment files, VC generation by symbolic execution of go/ssa, SMT back ends z3-new/cvc5/z3"}],
 "checks": checks,
 "not_applicable": na,
 "notes": "Exit codes of govc check: 0 all obligations discharged (known findings printed as KNOWN-FINDING), 1 VIOLATION, 2 inconclusive/broken (unbound contract, code outside the supported subset, vacuous precondition). Fix commits in /repo: see /verif/known_findings.txt.",
}
json.dump(manifest, open('/verif/MANIFEST.json', 'w'), indent=1)
print("claimed:", sorted(claimed), "not_applicable:", len(na))
