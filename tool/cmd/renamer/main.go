// renamer: a test aid.  Renames every local variable, parameter, receiver and named result of the module in the
// given directory by appending a suffix (a behaviour-preserving edit), to test that the contracts do not depend on
// the names of locals.  usage: renamer <module dir> [suffix] [only-locals]
package main

import (
	"fmt"
	"go/ast"
	"go/token"
	"go/types"
	"os"
	"sort"
	"strings"

	"golang.org/x/tools/go/packages"
)

func main() {
	dir := os.Args[1]
	suffix := "Zq"
	if len(os.Args) > 2 {
		suffix = os.Args[2]
	}
	onlyLocals := len(os.Args) > 3 && os.Args[3] == "only-locals"
	fset := token.NewFileSet()
	cfg := &packages.Config{Mode: packages.LoadAllSyntax, Dir: dir, Fset: fset}
	pkgs, err := packages.Load(cfg, "./...")
	if err != nil {
		panic(err)
	}
	type edit struct{ off, end int }
	edits := map[string][]edit{}
	for _, p := range pkgs {
		sigVars := map[types.Object]bool{}
		if onlyLocals {
			for _, f := range p.Syntax {
				ast.Inspect(f, func(n ast.Node) bool {
					var ft *ast.FuncType
					var recv *ast.FieldList
					switch x := n.(type) {
					case *ast.FuncDecl:
						ft, recv = x.Type, x.Recv
					case *ast.FuncLit:
						ft = x.Type
					}
					if ft == nil {
						return true
					}
					for _, fl := range []*ast.FieldList{recv, ft.Params, ft.Results} {
						if fl == nil {
							continue
						}
						for _, fd := range fl.List {
							for _, nm := range fd.Names {
								sigVars[p.TypesInfo.Defs[nm]] = true
							}
						}
					}
					return true
				})
			}
		}
		want := func(o types.Object) bool {
			v, ok := o.(*types.Var)
			if !ok || v.IsField() || v.Name() == "_" || v.Pkg() == nil || v.Pkg() != p.Types {
				return false
			}
			if v.Parent() == nil || v.Parent() == p.Types.Scope() || v.Parent() == types.Universe {
				return false
			}
			return !sigVars[o]
		}
		seen := map[token.Pos]bool{}
		add := func(id *ast.Ident, o types.Object) {
			if o == nil || !want(o) || seen[id.Pos()] {
				return
			}
			pos := fset.Position(id.Pos())
			if strings.HasSuffix(pos.Filename, "_test.go") || strings.HasSuffix(pos.Filename, "_verif.go") || !strings.HasPrefix(pos.Filename, dir) {
				return
			}
			seen[id.Pos()] = true
			edits[pos.Filename] = append(edits[pos.Filename], edit{pos.Offset, pos.Offset + len(id.Name)})
		}
		for id, o := range p.TypesInfo.Defs {
			add(id, o)
		}
		for id, o := range p.TypesInfo.Uses {
			add(id, o)
		}
		// `switch x := v.(type)`: the per-clause objects are implicit; the identifier itself has no Def object
		for _, f := range p.Syntax {
			ast.Inspect(f, func(n ast.Node) bool {
				ts, ok := n.(*ast.TypeSwitchStmt)
				if !ok {
					return true
				}
				if as, ok := ts.Assign.(*ast.AssignStmt); ok && len(as.Lhs) == 1 {
					if id, ok := as.Lhs[0].(*ast.Ident); ok && id.Name != "_" && !seen[id.Pos()] {
						pos := fset.Position(id.Pos())
						if !strings.HasSuffix(pos.Filename, "_test.go") && !strings.HasSuffix(pos.Filename, "_verif.go") {
							seen[id.Pos()] = true
							edits[pos.Filename] = append(edits[pos.Filename], edit{pos.Offset, pos.Offset + len(id.Name)})
						}
					}
				}
				return true
			})
		}
	}
	n := 0
	for file, es := range edits {
		data, err := os.ReadFile(file)
		if err != nil {
			panic(err)
		}
		sort.Slice(es, func(i, j int) bool { return es[i].off > es[j].off })
		for _, e := range es {
			data = append(data[:e.end], append([]byte(suffix), data[e.end:]...)...)
			n++
		}
		if err := os.WriteFile(file, data, 0o644); err != nil {
			panic(err)
		}
	}
	fmt.Printf("renamed %d identifiers in %d files\n", n, len(edits))
}
