package main

import (
	"bytes"
	"context"
	"fmt"
	"os"
	"os/exec"
	"path/filepath"
	"strings"
	"sync"
	"time"
)

type solverSpec struct {
	name string
	args func(file string, timeoutS int) []string
}

var solvers = []solverSpec{
	{"z3-new", func(f string, t int) []string { return []string{"z3-new", fmt.Sprintf("-T:%d", t), f} }},
	{"cvc5", func(f string, t int) []string {
		return []string{"cvc5", fmt.Sprintf("--tlimit=%d", t*1000), "--produce-models", "--strings-exp", f}
	}},
	{"z3", func(f string, t int) []string { return []string{"z3", fmt.Sprintf("-T:%d", t), f} }},
}

type solveResult struct {
	status  string // sat unsat unknown
	backend string
	out     string
	secs    float64
	all     map[string]string
}

func runOne(ctx context.Context, sp solverSpec, file string, timeoutS int) (string, string) {
	a := sp.args(file, timeoutS)
	cmd := exec.CommandContext(ctx, a[0], a[1:]...)
	var out bytes.Buffer
	cmd.Stdout = &out
	cmd.Stderr = &out
	_ = cmd.Run()
	o := out.String()
	first := ""
	for _, l := range strings.Split(o, "\n") {
		l = strings.TrimSpace(l)
		if strings.HasPrefix(l, "(error") || strings.Contains(l, "Parse Error") || strings.HasPrefix(l, "(error ") {
			// an error before the answer means the script was not understood: never trust the answer
			first = "unknown"
			o = "SOLVER-ERROR " + o
			break
		}
		if l == "sat" || l == "unsat" || l == "unknown" || l == "timeout" {
			first = l
			break
		}
	}
	if first == "" {
		first = "unknown"
	}
	if first == "timeout" {
		first = "unknown"
	}
	return first, o
}

// solveRace runs all solvers on the file; the first definite answer wins.
func solveRace(file string, timeoutS int, only []string) solveResult {
	ctx, cancel := context.WithTimeout(context.Background(), time.Duration(timeoutS+5)*time.Second)
	defer cancel()
	type ans struct {
		name, status, out string
	}
	ch := make(chan ans, len(solvers))
	n := 0
	start := time.Now()
	for _, sp := range solvers {
		if len(only) > 0 {
			ok := false
			for _, o := range only {
				if o == sp.name {
					ok = true
				}
			}
			if !ok {
				continue
			}
		}
		n++
		go func(sp solverSpec) {
			st, o := runOne(ctx, sp, file, timeoutS)
			if st == "sat" && sp.name == "z3" && strings.Contains(o, "") && recSensitive(file) {
				// z3 4.8.12 reports `sat` on goals with recursive definitions that the newer solvers
				// refute or cannot decide; only its `unsat` answers are used there
				st = "unknown"
			}
			ch <- ans{sp.name, st, o}
		}(sp)
	}
	res := solveResult{status: "unknown", all: map[string]string{}}
	for i := 0; i < n; i++ {
		a := <-ch
		res.all[a.name] = a.status
		if a.status == "sat" || a.status == "unsat" {
			res.status = a.status
			res.backend = a.name
			res.out = a.out
			res.secs = time.Since(start).Seconds()
			cancel()
			return res
		}
		if res.out == "" {
			res.out = a.out
		}
	}
	res.secs = time.Since(start).Seconds()
	return res
}

// parseModel extracts (define-fun name () Sort value) entries.
func parseModel(out string) map[string]string {
	m := map[string]string{}
	toks := tokenize(out)
	// find sequences: ( define-fun NAME ( ) SORT VALUE )
	for i := 0; i+5 < len(toks); i++ {
		if toks[i] == "define-fun" && toks[i+2] == "(" && toks[i+3] == ")" {
			name := strings.Trim(toks[i+1], "|")
			// value starts at i+5
			j := i + 5
			val, _ := readSexp(toks, j)
			m[name] = val
		}
	}
	return m
}

func tokenize(s string) []string {
	var toks []string
	i := 0
	for i < len(s) {
		c := s[i]
		switch {
		case c == '(' || c == ')':
			toks = append(toks, string(c))
			i++
		case c == ' ' || c == '\n' || c == '\t' || c == '\r':
			i++
		case c == '|':
			j := strings.IndexByte(s[i+1:], '|')
			if j < 0 {
				j = len(s) - i - 2
			}
			toks = append(toks, s[i:i+j+2])
			i += j + 2
		case c == '"':
			j := i + 1
			for j < len(s) && s[j] != '"' {
				j++
			}
			toks = append(toks, s[i:j+1])
			i = j + 1
		default:
			j := i
			for j < len(s) && !strings.ContainsRune("() \n\t\r", rune(s[j])) {
				j++
			}
			toks = append(toks, s[i:j])
			i = j
		}
	}
	return toks
}

func readSexp(toks []string, i int) (string, int) {
	if i >= len(toks) {
		return "", i
	}
	if toks[i] != "(" {
		return toks[i], i + 1
	}
	depth := 0
	var parts []string
	j := i
	for j < len(toks) {
		if toks[j] == "(" {
			depth++
		} else if toks[j] == ")" {
			depth--
		}
		parts = append(parts, toks[j])
		j++
		if depth == 0 {
			break
		}
	}
	s := strings.Join(parts, " ")
	// normalise (- N)
	s = strings.ReplaceAll(s, "( - ", "(- ")
	s = strings.ReplaceAll(s, " )", ")")
	return s, j
}

// dischargeAll solves obligations in parallel.
// solveDeadline: end of the solving budget of a check (zero: none)
var solveDeadline time.Time

func dischargeAll(obs []*Oblig, dir string, timeoutS int, workers int) {
	// render sequentially (term table is not thread-safe)
	for i, ob := range obs {
		ob.SMT = filepath.Join(dir, fmt.Sprintf("vc%04d.smt2", i))
		var text string
		if ob.Expect == "sat" {
			text = RenderVC(ob.Hyps, nil, false)
		} else {
			text = RenderVC(ob.Hyps, ob.Goal, true)
		}
		ob.hasRec = strings.Contains(text, "define-funs-rec")
		header := fmt.Sprintf("; obligation %s\n; source %s\n; clause %s\n", ob.Name, ob.Pos, strings.ReplaceAll(ob.Src, "\n", " "))
		if err := os.WriteFile(ob.SMT, []byte(header+text), 0o644); err != nil {
			fatalf("write vc: %v", err)
		}
		if ob.Expect == "unsat" && ob.Goal != nil && !ob.Goal.IsTrue() {
			// the same obligation without the hypotheses that contain products of two symbolic terms (a weaker
			// hypothesis set: a proof from it is a proof); tried when the full form is not decided, because
			// such products switch the solvers to nonlinear arithmetic even where the goal does not need them
			var lin []*Term
			dropped := 0
			for _, h := range ob.Hyps {
				if hasSymbolicProduct(h) {
					dropped++
					continue
				}
				lin = append(lin, h)
			}
			if dropped > 0 && !hasSymbolicProduct(ob.Goal) {
				ob.linSMT = filepath.Join(dir, fmt.Sprintf("vc%04dl.smt2", i))
				os.WriteFile(ob.linSMT, []byte(header+"; hypotheses with symbolic products omitted\n"+RenderVC(lin, ob.Goal, false)), 0o644)
			}
		}
		if ob.Expect == "unsat" && ob.Goal != nil && !ob.Goal.IsTrue() && len(ob.Hyps) > 60 {
			// relevance-pruned form: only the hypotheses connected to the goal through shared symbols (three
			// rounds of closure); a subset of the hypotheses, so a proof from it is a proof
			if rel := relevantHyps(ob.Hyps, ob.Goal, 3); len(rel) < len(ob.Hyps) {
				ob.relSMT = filepath.Join(dir, fmt.Sprintf("vc%04dr.smt2", i))
				os.WriteFile(ob.relSMT, []byte(header+"; hypotheses not connected to the goal omitted\n"+RenderVC(rel, ob.Goal, false)), 0o644)
			}
		}
		if ob.AltGoal != nil && ob.Expect == "unsat" {
			// the same proof obligation in its unsplit form: tried when the split part is not decided
			ob.altSMT = filepath.Join(dir, fmt.Sprintf("vc%04da.smt2", i))
			os.WriteFile(ob.altSMT, []byte(header+"; unsplit form\n"+RenderVC(ob.AltHyps, ob.AltGoal, false)), 0o644)
		}
	}
	var wg sync.WaitGroup
	sem := make(chan struct{}, workers)
	for _, ob := range obs {
		if ob.Goal != nil && ob.Goal.IsTrue() && ob.Expect == "unsat" {
			ob.Result = "unsat"
			ob.Backend = "trivial"
			continue
		}
		if ob.Goal != nil && ob.Expect == "unsat" && ob.Kind == "lemma" && polyProve(ob.Hyps, ob.Goal) {
			ob.Result = "unsat"
			ob.Backend = "poly"
			continue
		}
		wg.Add(1)
		sem <- struct{}{}
		go func(ob *Oblig) {
			defer wg.Done()
			defer func() { <-sem }()
			to := timeoutS
			if ob.Expect == "sat" && to > 5 {
				to = 5
			}
			if !solveDeadline.IsZero() && time.Now().After(solveDeadline) {
				// the solving budget of the check is used up (a change that multiplies the obligations): undecided
				ob.Result = "unknown"
				ob.Backend = "none(solving budget of the check exhausted)"
				ob.solverOut = "not attempted: the solving budget of the check was used up by the obligations before this one"
				return
			}
			// all three back ends race (z3 4.8.12 decides some goals the newer ones do not, and vice versa)
			var first []string
			var r solveResult
			r = solveRace(ob.SMT, to, first)
			if r.status != "unsat" && r.status != "sat" && ob.Expect == "unsat" && ob.relSMT != "" {
				// relevance-pruned form, tried when the full form is not decided: an `unsat` of it is a proof (a subset
				// of the hypotheses); any other answer of it is ignored
				if rr := solveRace(ob.relSMT, to, nil); rr.status == "unsat" {
					rr.secs += r.secs
					rr.backend += "(relevant-hyps)"
					for k, v := range r.all {
						if _, ok := rr.all[k]; !ok {
							rr.all[k] = v
						}
					}
					r = rr
				}
			}
			if r.status != "unsat" && ob.Expect == "unsat" && ob.linSMT != "" {
				if rl := solveRace(ob.linSMT, to, nil); rl.status == "unsat" {
					rl.secs += r.secs
					rl.backend += "(linear-hyps)"
					for k, v := range r.all {
						if _, ok := rl.all[k]; !ok {
							rl.all[k] = v
						}
					}
					r = rl
				}
			}
			if r.status != "unsat" && ob.Expect == "unsat" && ob.altSMT != "" {
				if ra := solveRace(ob.altSMT, to, nil); ra.status == "unsat" {
					ra.secs += r.secs
					ra.backend += "(unsplit)"
					for k, v := range r.all {
						if _, ok := ra.all[k]; !ok {
							ra.all[k] = v
						}
					}
					r = ra
				}
			}
			ob.Result = r.status
			ob.Backend = r.backend
			ob.Time = r.secs
			if r.status == "sat" && ob.Expect == "unsat" {
				ob.Model = parseModel(r.out)
			}
			ob.solverOut = r.out
			ob.allAnswers = r.all
		}(ob)
	}
	wg.Wait()
}

func recSensitive(file string) bool {
	b, err := os.ReadFile(file)
	return err == nil && strings.Contains(string(b), "define-funs-rec")
}

var symProdMemo = map[*Term]bool{}

// hasSymbolicProduct: the term contains a product of two non-constant terms.
func hasSymbolicProduct(t *Term) bool {
	if v, ok := symProdMemo[t]; ok {
		return v
	}
	r := false
	if t.Op == "*" {
		nc := 0
		for _, a := range t.Args {
			if !a.IsConst() {
				nc++
			}
		}
		if nc >= 2 {
			r = true
		}
	}
	if !r {
		for _, a := range t.Args {
			if hasSymbolicProduct(a) {
				r = true
				break
			}
		}
	}
	symProdMemo[t] = r
	return r
}

func termSymbols(t *Term, out map[string]bool, seen map[*Term]bool) {
	if seen[t] {
		return
	}
	seen[t] = true
	switch t.Op {
	case "var":
		out["v:"+t.Name] = true
	case "app":
		out["f:"+t.Name] = true
	}
	for _, a := range t.Args {
		termSymbols(a, out, seen)
	}
}

// relevantHyps: the hypotheses reachable from the goal through shared variables / function symbols.
func relevantHyps(hyps []*Term, goal *Term, rounds int) []*Term {
	syms := map[string]bool{}
	termSymbols(goal, syms, map[*Term]bool{})
	hs := make([]map[string]bool, len(hyps))
	for i, h := range hyps {
		hs[i] = map[string]bool{}
		termSymbols(h, hs[i], map[*Term]bool{})
	}
	keep := make([]bool, len(hyps))
	for r := 0; r < rounds; r++ {
		add := map[string]bool{}
		for i := range hyps {
			if keep[i] {
				continue
			}
			// hypotheses that mention many symbols (big conjunctions of the precondition) connect everything:
			// they are taken only if a large share of them is already relevant
			shared := 0
			for s := range hs[i] {
				if syms[s] {
					shared++
				}
			}
			if shared == 0 || (len(hs[i]) > 12 && shared*3 < len(hs[i]) && r > 0) {
				continue
			}
			keep[i] = true
			for s := range hs[i] {
				add[s] = true
			}
		}
		for s := range add {
			syms[s] = true
		}
	}
	var out []*Term
	for i, h := range hyps {
		if keep[i] {
			out = append(out, h)
		}
	}
	return out
}
