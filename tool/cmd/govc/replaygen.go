package main

// Replay of solver counterexamples on the real code.  The principle is "prediction
// agreement": the model fixes the inputs (and, in SOUND mode, the hint outputs); govc predicts
// what the real code does with them (constraint system satisfied / rejected, function
// results); an injected in-package test (`go test -overlay`, nothing is written to /repo)
// runs the real code on the same values.  If the observation agrees with the prediction, the
// contract violation the solver found is a behaviour of the real code.

import (
	"bytes"
	"context"
	"encoding/json"
	"fmt"
	"go/types"
	"math/big"
	"os"
	"os/exec"
	"path/filepath"
	"sort"
	"strings"
	"time"

	"golang.org/x/tools/go/ssa"
)

type runInfo struct {
	fn      *ssa.Function
	mode    Mode
	args    []Value
	results []Value
	hints   []hintSite
}

// ---------------------------------------------------------------------------------
// term evaluation under a model

type modelEnv struct {
	vals map[string]string
}

func parseModelInt(s string) (*big.Int, bool) {
	s = strings.TrimSpace(s)
	if strings.HasPrefix(s, "(-") {
		inner := strings.TrimSuffix(strings.TrimSpace(strings.TrimPrefix(s, "(-")), ")")
		v, ok := new(big.Int).SetString(strings.TrimSpace(inner), 10)
		if !ok {
			return nil, false
		}
		return v.Neg(v), true
	}
	v, ok := new(big.Int).SetString(s, 10)
	return v, ok
}

type evalFail struct{ why string }

func (m *modelEnv) evalInt(t *Term) *big.Int {
	switch t.Op {
	case "const":
		return t.Val
	case "var":
		if s, ok := m.vals[t.Name]; ok {
			if v, ok := parseModelInt(s); ok {
				return v
			}
			panic(evalFail{"unparsable model value for " + t.Name + ": " + s})
		}
		return big.NewInt(0)
	case "+":
		return new(big.Int).Add(m.evalInt(t.Args[0]), m.evalInt(t.Args[1]))
	case "-":
		return new(big.Int).Sub(m.evalInt(t.Args[0]), m.evalInt(t.Args[1]))
	case "*":
		r := big.NewInt(1)
		for _, a := range t.Args {
			r.Mul(r, m.evalInt(a))
		}
		return r
	case "div":
		b := m.evalInt(t.Args[1])
		if b.Sign() == 0 {
			panic(evalFail{"division by zero in model evaluation"})
		}
		q, _ := new(big.Int).DivMod(m.evalInt(t.Args[0]), b, new(big.Int))
		return q
	case "mod":
		b := m.evalInt(t.Args[1])
		if b.Sign() == 0 {
			panic(evalFail{"mod by zero in model evaluation"})
		}
		_, r := new(big.Int).DivMod(m.evalInt(t.Args[0]), b, new(big.Int))
		return r
	case "ite":
		if m.evalBool(t.Args[0]) {
			return m.evalInt(t.Args[1])
		}
		return m.evalInt(t.Args[2])
	case "app":
		if t.Name == "pow2" {
			k := m.evalInt(t.Args[0])
			if k.IsInt64() && k.Int64() >= 0 && k.Int64() <= 256 {
				return bigPow2(uint(k.Int64()))
			}
			return big.NewInt(0)
		}
		if t.Name == "bitlen" {
			return big.NewInt(int64(m.evalInt(t.Args[0]).BitLen()))
		}
	}
	panic(evalFail{"cannot evaluate term " + t.Op + " " + t.Name})
}

func (m *modelEnv) evalBool(t *Term) bool {
	switch t.Op {
	case "bconst":
		return t.B
	case "var":
		return m.vals[t.Name] == "true"
	case "not":
		return !m.evalBool(t.Args[0])
	case "and":
		for _, a := range t.Args {
			if !m.evalBool(a) {
				return false
			}
		}
		return true
	case "or":
		for _, a := range t.Args {
			if m.evalBool(a) {
				return true
			}
		}
		return false
	case "=>":
		return !m.evalBool(t.Args[0]) || m.evalBool(t.Args[1])
	case "=":
		if t.Args[0].Sort == SBool {
			return m.evalBool(t.Args[0]) == m.evalBool(t.Args[1])
		}
		if t.Args[0].Sort == SStr {
			panic(evalFail{"string comparison"})
		}
		return m.evalInt(t.Args[0]).Cmp(m.evalInt(t.Args[1])) == 0
	case "<":
		return m.evalInt(t.Args[0]).Cmp(m.evalInt(t.Args[1])) < 0
	case "<=":
		return m.evalInt(t.Args[0]).Cmp(m.evalInt(t.Args[1])) <= 0
	case "ite":
		if m.evalBool(t.Args[0]) {
			return m.evalBool(t.Args[1])
		}
		return m.evalBool(t.Args[2])
	}
	panic(evalFail{"cannot evaluate boolean term " + t.Op})
}

// ---------------------------------------------------------------------------------
// gadget replayer

type gadgetArg struct {
	goExpr string // Go expression building the argument inside Define (uses c.In[k]) or a literal
}

type gadgetPlan struct {
	pkgPath   string
	pkgName   string
	pkgDir    string
	ctor      string // Go statement(s) constructing `chip` from `api`
	call      string // chip.Method(...)
	nIn       int
	inVals    []*big.Int
	outExprs  []string // Go expressions (frontend.Variable) over `r` (the call result)
	outVals   []*big.Int
	rcType    *big.Int // model value of the range checker type, nil if unknown
	hintVals  map[string][][]*big.Int
	hintFuncs map[string]string // hint name -> qualified Go identifier
	imports   map[string]string
}

func (e *Engine) planArg(t types.Type, v Value, m *modelEnv, p *gadgetPlan, pkg *types.Package) (string, bool) {
	q := func(tt types.Type) string {
		return types.TypeString(tt, func(o *types.Package) string {
			if o == pkg {
				return ""
			}
			p.imports[o.Path()] = o.Name()
			return o.Name()
		})
	}
	newIn := func(val *big.Int) string {
		p.inVals = append(p.inVals, val)
		p.nIn++
		return fmt.Sprintf("c.In[%d]", p.nIn-1)
	}
	if e.isFrontendVariable(t) {
		return newIn(m.evalInt(asInt(v))), true
	}
	switch u := t.Underlying().(type) {
	case *types.Basic:
		if u.Info()&types.IsInteger != 0 {
			return fmt.Sprintf("%s(%s)", q(t), m.evalInt(asInt(v)).String()), true
		}
	case *types.Struct:
		if namedPath(t) == modulePrefix+"/goldilocks.Variable" {
			st := v.(VStruct)
			return fmt.Sprintf("%s{Limb: %s}", q(t), newIn(m.evalInt(asInt(st.F[0])))), true
		}
	case *types.Array:
		arr, ok := v.(VArr)
		if !ok {
			return "", false
		}
		var parts []string
		for _, el := range arr.E {
			s, ok := e.planArg(u.Elem(), el, m, p, pkg)
			if !ok {
				return "", false
			}
			parts = append(parts, s)
		}
		return fmt.Sprintf("%s{%s}", q(t), strings.Join(parts, ", ")), true
	}
	return "", false
}

// planOuts lists frontend.Variable leaves of the result.
func (e *Engine) planOuts(t types.Type, v Value, expr string, m *modelEnv, p *gadgetPlan) bool {
	if e.isFrontendVariable(t) {
		p.outExprs = append(p.outExprs, expr)
		p.outVals = append(p.outVals, m.evalInt(asInt(v)))
		return true
	}
	switch u := t.Underlying().(type) {
	case *types.Struct:
		st, ok := v.(VStruct)
		if !ok {
			return false
		}
		for i := 0; i < u.NumFields(); i++ {
			if !e.planOuts(u.Field(i).Type(), st.F[i], expr+"."+u.Field(i).Name(), m, p) {
				return false
			}
		}
		return true
	case *types.Array:
		arr, ok := v.(VArr)
		if !ok {
			return false
		}
		for i := range arr.E {
			if !e.planOuts(u.Elem(), arr.E[i], fmt.Sprintf("%s[%d]", expr, i), m, p) {
				return false
			}
		}
		return true
	case *types.Tuple:
		return false
	}
	return false
}

func (e *Engine) replayCircuit(l *Loaded, ob *Oblig, scratch string) (ok bool, log string, test string, why string) {
	ri := ob.run
	if ri == nil || ri.fn == nil {
		return false, "", "", "no run information"
	}
	defer func() {
		if r := recover(); r != nil {
			switch x := r.(type) {
			case evalFail:
				ok, why = false, "model evaluation failed: "+x.why
			case execError:
				ok, why = false, "replay planning failed: "+x.msg
			default:
				panic(r)
			}
		}
	}()
	fn := ri.fn
	sig := fn.Signature
	if sig.Recv() == nil {
		return false, "", "", "not a method of a chip type"
	}
	m := &modelEnv{vals: ob.Model}
	pkg := fn.Pkg.Pkg
	p := &gadgetPlan{pkgPath: pkg.Path(), pkgName: pkg.Name(), hintVals: map[string][][]*big.Int{}, hintFuncs: map[string]string{}, imports: map[string]string{}}
	p.pkgDir = filepath.Join(repoModuleDir, strings.TrimPrefix(pkg.Path(), modulePrefix))
	glPath := modulePrefix + "/goldilocks"
	recvT := namedPath(sig.Recv().Type())
	var chipVal Value // the goldilocks chip whose range checker type the model fixes
	recv := ri.args[0]
	switch recvT {
	case "*" + glPath + ".Chip":
		p.ctor = "chip := New(zzAPI)"
		if rp, ok := recv.(VPtr); ok {
			chipVal = rp
		}
	case "*" + modulePrefix + "/poseidon.GoldilocksChip":
		p.ctor = "chip := NewGoldilocksChip(zzAPI)"
	case "*" + modulePrefix + "/poseidon.BN254Chip":
		p.ctor = "chip := NewBN254Chip(zzAPI)"
	default:
		return false, "", "", "no replayer for receiver type " + recvT
	}
	_ = chipVal
	// range checker type from the model: search the model for the receiver's rangeCheckerType leaf
	for k, v := range ob.Model {
		if strings.Contains(k, "rangeCheckerType") {
			if bv, ok := parseModelInt(v); ok {
				p.rcType = bv
			}
		}
	}
	var argExprs []string
	for i := 0; i < sig.Params().Len(); i++ {
		s, ok := e.planArg(sig.Params().At(i).Type(), ri.args[i+1], m, p, pkg)
		if !ok {
			return false, "", "", "parameter " + sig.Params().At(i).Name() + " has a shape the gadget replayer does not support"
		}
		argExprs = append(argExprs, s)
	}
	p.call = "chip." + fn.Name() + "(" + strings.Join(argExprs, ", ") + ")"
	nres := sig.Results().Len()
	resNames := []string{}
	for i := 0; i < nres; i++ {
		resNames = append(resNames, fmt.Sprintf("r%d", i))
	}
	if ri.mode == SOUND && ob.Kind != "pre" {
		for i := 0; i < nres && i < len(ri.results); i++ {
			if !e.planOuts(sig.Results().At(i).Type(), ri.results[i], resNames[i], m, p) {
				return false, "", "", "result has a shape the gadget replayer does not support"
			}
		}
	}
	// hint values (SOUND): per hint function, the sequence of outputs the model chose
	if ri.mode == SOUND {
		for _, h := range ri.hints {
			var outs []*big.Int
			for _, o := range h.Out {
				outs = append(outs, m.evalInt(o))
			}
			p.hintVals[h.Fn] = append(p.hintVals[h.Fn], outs)
		}
	}
	// prediction
	expectAccepted := ri.mode == SOUND
	src := p.render(e, ri, resNames, expectAccepted)
	dir, err := os.MkdirTemp(scratch, "replay")
	if err != nil {
		return false, "", "", "mktemp: " + err.Error()
	}
	testFile := filepath.Join(dir, "zz_govc_replay_test.go")
	os.WriteFile(testFile, []byte(src), 0o644)
	ov := map[string]map[string]string{"Replace": {filepath.Join(p.pkgDir, "zz_govc_replay_test.go"): testFile}}
	ovb, _ := json.Marshal(ov)
	ovFile := filepath.Join(dir, "ov.json")
	os.WriteFile(ovFile, ovb, 0o644)
	out, rerr := runGoTest(p.pkgDir, ovFile, p.rcType)
	lastReplay.pkg = strings.TrimPrefix(strings.TrimPrefix(p.pkgDir, repoModuleDir), "/")
	lastReplay.mark = "GOVC-REPLAY accepted=false"
	if expectAccepted {
		lastReplay.mark = "GOVC-REPLAY accepted=true"
	}
	lastReplay.bitDecomp = p.rcType != nil && p.rcType.Cmp(big.NewInt(2)) == 0
	log = out
	if len(log) > 6000 {
		log = log[len(log)-6000:]
	}
	accepted := strings.Contains(out, "GOVC-REPLAY accepted=true")
	rejected := strings.Contains(out, "GOVC-REPLAY accepted=false")
	switch {
	case !accepted && !rejected:
		return false, log, src, fmt.Sprintf("replay did not run to completion (%v)", rerr)
	case expectAccepted && accepted:
		return true, log, src, "the real constraint system is satisfied by the model's inputs, hint values and result, which the postcondition excludes"
	case !expectAccepted && rejected:
		return true, log, src, "the real circuit with honest hints rejects an input the contract says must be accepted"
	}
	return false, log, src, "the real code did not reproduce the model (prediction and observation differ): SPURIOUS-MODEL"
}

func runGoTest(pkgDir, ovFile string, rcType *big.Int) (string, error) {
	ctx, cancel := context.WithTimeout(context.Background(), 150*time.Second)
	defer cancel()
	cmd := exec.CommandContext(ctx, "go", "test", "-overlay", ovFile, "-vet=off", "-count=1", "-timeout", "120s", "-run", "TestZZGovcReplay", "-v", ".")
	cmd.Dir = pkgDir
	env := os.Environ()
	env = append(env, "GOFLAGS=-mod=mod", "GOPROXY=off", "GOSUMDB=off", "GOTOOLCHAIN=local")
	if rcType != nil && rcType.Cmp(big.NewInt(2)) == 0 {
		env = append(env, "USE_BIT_DECOMPOSITION_RANGE_CHECK=true")
	} else {
		env = append(env, "USE_BIT_DECOMPOSITION_RANGE_CHECK=")
	}
	cmd.Env = env
	var buf bytes.Buffer
	cmd.Stdout = &buf
	cmd.Stderr = &buf
	err := cmd.Run()
	return buf.String(), err
}

func (p *gadgetPlan) render(e *Engine, ri *runInfo, resNames []string, expectAccepted bool) string {
	var sb strings.Builder
	imports := map[string]string{
		"fmt": "", "math/big": "", "testing": "",
		"github.com/consensys/gnark-crypto/ecc":        "",
		"github.com/consensys/gnark/constraint/solver": "",
		"github.com/consensys/gnark/frontend":          "",
		"github.com/consensys/gnark/frontend/cs/r1cs":  "",
		"github.com/consensys/gnark/std/math/bits":     "gbits",
	}
	glPath := modulePrefix + "/goldilocks"
	glq := ""
	if p.pkgPath != glPath {
		imports[glPath] = "gl"
		glq = "gl."
	}
	for path, name := range p.imports {
		if path != p.pkgPath {
			if _, ok := imports[path]; !ok {
				imports[path] = name
			}
		}
	}
	sb.WriteString("// Code generated by govc (replay of a solver counterexample); injected with go test -overlay.\n")
	sb.WriteString("package " + p.pkgName + "\n\nimport (\n")
	var ips []string
	for k := range imports {
		ips = append(ips, k)
	}
	sort.Strings(ips)
	for _, k := range ips {
		if imports[k] != "" {
			sb.WriteString(fmt.Sprintf("\t%s %q\n", imports[k], k))
		} else {
			sb.WriteString(fmt.Sprintf("\t%q\n", k))
		}
	}
	sb.WriteString(")\n\n")
	sb.WriteString(`// zzNativeAPI range-checks natively (soundly, by bit decomposition), as a builder implementing
// frontend.Rangechecker would.
type zzNativeAPI struct{ frontend.API }

func (a zzNativeAPI) Check(v frontend.Variable, n int) { gbits.ToBinary(a.API, v, gbits.WithNbDigits(n)) }

`)
	sb.WriteString(fmt.Sprintf("type zzCircuit struct {\n\tIn  [%d]frontend.Variable\n\tOut [%d]frontend.Variable\n\tnative bool\n}\n\n", maxInt(p.nIn, 1), maxInt(len(p.outExprs), 1)))
	sb.WriteString("func (c *zzCircuit) Define(api frontend.API) error {\n\tvar zzAPI frontend.API = api\n\tif c.native {\n\t\tzzAPI = zzNativeAPI{api}\n\t}\n")
	sb.WriteString("\t" + p.ctor + "\n")
	if p.rcType != nil && p.rcType.Cmp(big.NewInt(1)) == 0 {
		// the commit-based checker insists on base width 16, which gnark only picks for circuits with
		// many range checks: pad with harmless checks of the constant 0
		sb.WriteString(fmt.Sprintf("\tfor i := 0; i < 34000; i++ {\n\t\t%sNew(zzAPI).RangeCheck(%sNewVariable(0))\n\t}\n", glq, glq))
	}
	if len(resNames) > 0 {
		sb.WriteString("\t" + strings.Join(resNames, ", ") + " := " + p.call + "\n")
		for _, r := range resNames {
			sb.WriteString("\t_ = " + r + "\n")
		}
	} else {
		sb.WriteString("\t" + p.call + "\n")
	}
	for i, ex := range p.outExprs {
		sb.WriteString(fmt.Sprintf("\tapi.AssertIsEqual(%s, c.Out[%d])\n", ex, i))
	}
	if p.nIn == 0 {
		sb.WriteString("\t_ = c.In\n")
	}
	sb.WriteString("\treturn nil\n}\n\n")
	sb.WriteString("func zzBig(s string) *big.Int { v, _ := new(big.Int).SetString(s, 10); return v }\n\n")
	sb.WriteString("func TestZZGovcReplay(t *testing.T) {\n")
	native := p.rcType != nil && p.rcType.Sign() == 0
	sb.WriteString(fmt.Sprintf("\tnative := %v\n", native))
	sb.WriteString("\tccs, err := frontend.Compile(ecc.BN254.ScalarField(), r1cs.NewBuilder, &zzCircuit{native: native})\n\tif err != nil {\n\t\tfmt.Println(\"GOVC-REPLAY compile-error\", err)\n\t\treturn\n\t}\n")
	sb.WriteString("\tvar a zzCircuit\n")
	for i := 0; i < maxInt(p.nIn, 1); i++ {
		v := "0"
		if i < len(p.inVals) {
			v = p.inVals[i].String()
		}
		sb.WriteString(fmt.Sprintf("\ta.In[%d] = zzBig(%q)\n", i, v))
	}
	for i := 0; i < maxInt(len(p.outExprs), 1); i++ {
		v := "0"
		if i < len(p.outVals) {
			v = new(big.Int).Mod(p.outVals[i], RConst).String()
		}
		sb.WriteString(fmt.Sprintf("\ta.Out[%d] = zzBig(%q)\n", i, v))
	}
	sb.WriteString("\tw, err := frontend.NewWitness(&a, ecc.BN254.ScalarField())\n\tif err != nil {\n\t\tfmt.Println(\"GOVC-REPLAY witness-error\", err)\n\t\treturn\n\t}\n")
	sb.WriteString("\tvar opts []solver.Option\n")
	var hn []string
	for k := range p.hintVals {
		hn = append(hn, k)
	}
	sort.Strings(hn)
	for _, h := range hn {
		seqs := p.hintVals[h]
		sb.WriteString(fmt.Sprintf("\t{\n\t\tcalls := 0\n\t\tvals := [][]string{\n"))
		for _, outs := range seqs {
			var ss []string
			for _, o := range outs {
				ss = append(ss, fmt.Sprintf("%q", new(big.Int).Mod(o, RConst).String()))
			}
			sb.WriteString("\t\t\t{" + strings.Join(ss, ", ") + "},\n")
		}
		sb.WriteString("\t\t}\n")
		sb.WriteString(fmt.Sprintf("\t\topts = append(opts, solver.OverrideHint(solver.GetHintID(%s%s), func(_ *big.Int, in []*big.Int, out []*big.Int) error {\n", glq, h))
		sb.WriteString("\t\t\tif calls < len(vals) {\n\t\t\t\tfor i := range out {\n\t\t\t\t\tout[i] = zzBig(vals[calls][i])\n\t\t\t\t}\n\t\t\t\tcalls++\n\t\t\t\treturn nil\n\t\t\t}\n")
		sb.WriteString(fmt.Sprintf("\t\t\treturn %s%s(nil, in, out)\n\t\t}))\n\t}\n", glq, h))
	}
	sb.WriteString("\terr = ccs.IsSolved(w, opts...)\n")
	sb.WriteString("\tfmt.Printf(\"GOVC-REPLAY accepted=%v err=%v\\n\", err == nil, err)\n}\n")
	return sb.String()
}

func maxInt(a, b int) int {
	if a > b {
		return a
	}
	return b
}
