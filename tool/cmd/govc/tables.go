package main

// Table obligations: constant tables of the Go code compared with an in-repo reference.

import (
	"fmt"
	"math/big"
	"os"
	"regexp"
	"strconv"
)

var rustConstRe = regexp.MustCompile(`(?s)(c_constants|s_constants|m_matrix|p_matrix)\[(\d+)\](?:\[(\d+)\])?\s*=\s*Fr::from_str_vartime\(\s*"(\d+)"`)

// bn254TableObligation compares cConstants, sConstants, mMatrix, pMatrix (as evaluated from the Go
// package initialiser) with crypto/plonky2_bn128/src/poseidon_bn128_constants.rs.
func bn254TableObligation(e *Engine) *Oblig {
	ob := &Oblig{Name: "tables/bn254-constants-equal-rust-reference", Kind: "table", Expect: "unsat", Goal: BoolC(true), Src: "Go BN254 Poseidon constants == crypto/plonky2_bn128/src/poseidon_bn128_constants.rs"}
	fail := func(msg string) *Oblig {
		ob.Goal = BoolC(false)
		ob.Src += "; " + msg
		return ob
	}
	data, err := os.ReadFile("/repo/crypto/plonky2_bn128/src/poseidon_bn128_constants.rs")
	if r := os.Getenv("GOVC_REPO"); r != "" {
		data, err = os.ReadFile(r + "/crypto/plonky2_bn128/src/poseidon_bn128_constants.rs")
	}
	if err != nil {
		return fail("reference file unreadable: " + err.Error())
	}
	names := map[string]string{"c_constants": "cConstants", "s_constants": "sConstants", "m_matrix": "mMatrix", "p_matrix": "pMatrix"}
	s := &State{heap: map[*Object]interface{}{}}
	c := &evalCtx{e: e, s: s, env: map[string]Value{}}
	n := 0
	counts := map[string]int{}
	var msg string
	func() {
		defer func() {
			if r := recover(); r != nil {
				if ee, ok := r.(execError); ok {
					msg = "cannot read Go table: " + ee.msg
					return
				}
				if pe, ok := r.(pathEnd); ok {
					msg = "cannot read Go table: " + pe.why
					return
				}
				panic(r)
			}
		}()
		for _, m := range rustConstRe.FindAllStringSubmatch(string(data), -1) {
			gv, ok := e.lookupQualified(s, "poseidon", names[m[1]])
			if !ok {
				msg = "Go table " + names[m[1]] + " not found"
				return
			}
			i, _ := strconv.Atoi(m[2])
			var elem Value
			sl, ok := c.deref(gv).(VSlice)
			if !ok {
				msg = names[m[1]] + " is not a slice"
				return
			}
			elem = e.sliceAt(s, sl, Int64C(int64(i)))
			if m[3] != "" {
				j, _ := strconv.Atoi(m[3])
				sl2, ok := c.deref(elem).(VSlice)
				if !ok {
					msg = names[m[1]] + " row is not a slice"
					return
				}
				elem = e.sliceAt(s, sl2, Int64C(int64(j)))
			}
			t := c.intOf(elem)
			want, _ := new(big.Int).SetString(m[4], 10)
			if !t.IsConst() || t.Val.Cmp(want) != 0 {
				msg = fmt.Sprintf("%s[%s][%s] differs from the reference (Go %v)", names[m[1]], m[2], m[3], t)
				return
			}
			if want.Cmp(RConst) >= 0 {
				msg = "constant not reduced"
				return
			}
			n++
			counts[m[1]]++
		}
	}()
	if msg != "" {
		return fail(msg)
	}
	if counts["c_constants"] != 88 || counts["s_constants"] != 392 || counts["m_matrix"] != 16 || counts["p_matrix"] != 16 {
		return fail(fmt.Sprintf("unexpected number of reference entries %v", counts))
	}
	ob.Src += fmt.Sprintf(" (%d entries compared)", n)
	return ob
}
