package main

// Symbolic executor over go/ssa: forward execution with path forking, loops cut at
// invariants (or executed exactly when their conditions are concrete), calls replaced
// by callee contracts (contract-less module functions are inlined).

import (
	"fmt"
	"go/ast"
	"go/constant"
	"go/token"
	"go/types"
	"math/big"
	"sort"
	"strings"
	"time"

	"golang.org/x/tools/go/ssa"
)

type Mode int

const (
	PLAIN Mode = iota
	SOUND
	COMPLETE
)

func (m Mode) String() string { return [...]string{"plain", "sound", "complete"}[m] }

type Oblig struct {
	Name   string // <func>/<mode>/<kind>
	Func   string
	Mode   Mode
	Kind   string
	Hyps   []*Term
	Goal   *Term
	Pos    string
	Src    string // clause source or description
	Props  []string
	Expect string // "unsat" (default: goal valid) or "sat" (cover)
	// the unsplit form of a range-split obligation (tried when the split part is not decided)
	AltHyps []*Term
	AltGoal *Term
	altSMT  string
	linSMT  string
	relSMT  string
	// filled by solver
	SMT        string
	Result     string
	Backend    string
	Time       float64
	Model      map[string]string
	Instance   int
	solverOut  string
	hasRec     bool
	run        *runInfo
	allAnswers map[string]string
}

type nameRef struct {
	v      Value
	isAddr bool
}

type Frame struct {
	fn          *ssa.Function
	env         map[ssa.Value]Value
	blk         *ssa.BasicBlock
	prev        *ssa.BasicBlock
	ip          int
	names       map[string]nameRef
	cut         map[*ssa.BasicBlock]bool
	visits      map[*ssa.BasicBlock]int
	call        *ssa.Call // call instruction in the parent waiting for the result (nil: top)
	callInstr   ssa.Instruction
	contract    *Contract
	params      map[string]Value
	entryHeap   map[*Object]interface{}
	loops       *loopInfo
	phisDone    bool
	symIters    int
	callResults map[string]Value
	entrySnap   map[int]*loopSnap // per loop ordinal: locals and heap at loop entry (for atentry())
}

type loopSnap struct {
	names      map[string]nameRef
	heap       map[*Object]interface{}
	callLogLen int
}

type State struct {
	stack       []*Frame
	heap        map[*Object]interface{}
	pc          []*Term
	steps       int
	ghostDefers []string
	hints       []hintSite
	results     []Value
	goals       map[*Term]bool // pc entries that are assumed proof goals (excluded from vacuity covers)
	callLog     []string       // module functions called so far on this path (contract applications and inlined calls)
	consumedAcc map[*Term]token.Pos // values that were the accumulator of a MulAcc on this path (see checkAccumulatorReuse)
}

func (s *State) top() *Frame { return s.stack[len(s.stack)-1] }

func (s *State) clone() *State {
	n := &State{heap: make(map[*Object]interface{}, len(s.heap)), steps: s.steps, ghostDefers: append([]string(nil), s.ghostDefers...), hints: append([]hintSite(nil), s.hints...), results: s.results, goals: copyGoals(s.goals), callLog: append([]string(nil), s.callLog...)}
	for k, v := range s.heap {
		n.heap[k] = v
	}
	n.pc = append([]*Term(nil), s.pc...)
	if len(s.consumedAcc) > 0 {
		n.consumedAcc = make(map[*Term]token.Pos, len(s.consumedAcc))
		for k, v := range s.consumedAcc {
			n.consumedAcc[k] = v
		}
	}
	for _, f := range s.stack {
		nf := *f
		nf.env = make(map[ssa.Value]Value, len(f.env))
		for k, v := range f.env {
			nf.env[k] = v
		}
		nf.names = make(map[string]nameRef, len(f.names))
		for k, v := range f.names {
			nf.names[k] = v
		}
		nf.cut = make(map[*ssa.BasicBlock]bool, len(f.cut))
		for k, v := range f.cut {
			nf.cut[k] = v
		}
		nf.visits = make(map[*ssa.BasicBlock]int, len(f.visits))
		for k, v := range f.visits {
			nf.visits[k] = v
		}
		if f.callResults != nil {
			nf.callResults = make(map[string]Value, len(f.callResults))
			for k, v := range f.callResults {
				nf.callResults[k] = v
			}
		}
		if f.entrySnap != nil {
			nf.entrySnap = make(map[int]*loopSnap, len(f.entrySnap))
			for k, v := range f.entrySnap {
				nf.entrySnap[k] = v
			}
		}
		n.stack = append(n.stack, &nf)
	}
	return n
}

func copyGoals(m map[*Term]bool) map[*Term]bool {
	n := make(map[*Term]bool, len(m))
	for k, v := range m {
		n[k] = v
	}
	return n
}

// coverHyps: the path condition without assumed goals (a failed goal must not make the
// reachability covers of the same path vacuous).
func (s *State) coverHyps() []*Term {
	var out []*Term
	for _, h := range s.pc {
		if !s.goals[h] {
			out = append(out, h)
		}
	}
	return out
}

func (s *State) assumeGoal(t *Term) {
	if s.goals == nil {
		s.goals = map[*Term]bool{}
	}
	before := len(s.pc)
	s.assume(t)
	for _, h := range s.pc[before:] {
		s.goals[h] = true
	}
}

func (s *State) assume(t *Term) {
	if t.IsTrue() {
		return
	}
	if t.Op == "and" {
		for _, a := range t.Args {
			s.assume(a)
		}
		return
	}
	s.pc = append(s.pc, t)
}

type Engine struct {
	prog      *ssa.Program
	modPath   string
	cs        *ContractSet
	bound     map[*ssa.Function]*Contract
	mode      Mode
	obligs    []*Oblig
	notes     map[string]bool // assumptions / trusted items actually used
	curFn     *ssa.Function
	curC      *Contract
	counters  map[string]int
	siteNames map[string]string
	fset      *token.FileSet
	globals   map[*ssa.Global]*Object
	globalVal map[*Object]interface{}
	maxSteps  int
	errs      []string
	inlined   map[string]bool
	funcsUsed map[string]bool
	hintIDs   map[string]int
	noInline  bool
	deferred  []deferredCall
	hintSites []hintSite
	frozen    map[string]bool
	pkgInit   map[*ssa.Package]bool
	inInit    bool
	// globalWriters: pkg.Name -> functions (other than init) that store to the global
	globalWriters map[string][]string
	globalsRead   map[string]bool
	opaqueUsed    map[string]bool
	noCover       bool
	curArgs       []Value
	lemmasUsed    map[string]bool
	leafClass     []leafClass
	curProp       string
	atCallHit     map[string]bool
	l             *Loaded
	ifaceUsed     map[string]bool
	returnsSeen   int
	regexSeq      int
	tick          int
	deadline      time.Time // end of the generation budget of the function case being verified
	genBudget     int       // seconds
	checkDeadline time.Time
	checkBudget   int
	aliasCache    map[*ssa.Function]*aliasInfo
	tier          string
	curWork       *[]*State
	alt           *altResult
	pruneCalls    int
	seqArrays     map[string][]*Term
	probing       bool
	lastGhosts    map[string]Value
}

type leafClass struct {
	prefix string
	class  string
}

func (e *Engine) note(s string) { e.notes[s] = true }

func (e *Engine) posOf(p token.Pos) string {
	if !p.IsValid() {
		return ""
	}
	pp := e.fset.Position(p)
	f := pp.Filename
	if i := strings.Index(f, "gnark-plonky2-verifier/"); i >= 0 {
		f = f[i+len("gnark-plonky2-verifier/"):]
	}
	return fmt.Sprintf("%s:%d", f, pp.Line)
}

// siteOrdinal gives a stable per-function ordinal for a program point of a given kind:
// ordinal of the instruction among same-kind sites sorted by source position.
func (e *Engine) emit(s *State, kind, site string, goal *Term, pos token.Pos, src string) {
	if goal.IsTrue() {
		// still count it: a trivially discharged obligation
	}
	name := fmt.Sprintf("%s/%s/%s", funcKey(e.curFn), e.mode, kind)
	if site != "" {
		name += "@" + site
	}
	// a conjunction with quantified conjuncts is proved conjunct by conjunct (each is skolemised on its own)
	if goal.Op == "and" {
		quant := false
		for _, a := range goal.Args {
			if a.Op == "forall" {
				quant = true
			}
		}
		if quant && len(goal.Args) <= 12 {
			for _, a := range goal.Args {
				e.emitOne(s, name, kind, a, pos, src)
			}
			s.assumeGoal(goal)
			return
		}
	}
	e.emitOne(s, name, kind, goal, pos, src)
	s.assumeGoal(goal)
}

func (e *Engine) emitOne(s *State, name, kind string, goal *Term, pos token.Pos, src string) {
	parts, at := splitRangeGoal(goal)
	for k, g := range parts {
		hyps := append([]*Term(nil), s.pc...)
		if k == 1 && at != nil {
			// the new instance of a range-extended invariant: universal hypotheses instantiated at the new index
			hyps = append(hyps, instancesAt(s.pc, at)...)
		}
		ob := &Oblig{Name: name, Func: funcKey(e.curFn), Mode: e.mode, Kind: kind, Hyps: hyps, Goal: g, Pos: e.posOf(pos), Src: src, Expect: "unsat"}
		if len(parts) > 1 {
			ob.AltHyps, ob.AltGoal = append([]*Term(nil), s.pc...), goal
		}
		if e.curC != nil {
			ob.Props = e.curC.Props
		}
		if e.curArgs != nil && len(s.stack) > 0 {
			ob.run = &runInfo{fn: e.curFn, mode: e.mode, args: e.curArgs, results: s.results, hints: append([]hintSite(nil), s.hints...)}
		}
		e.obligs = append(e.obligs, ob)
	}
}

func funcKey(fn *ssa.Function) string {
	if fn == nil {
		return "?"
	}
	pkg := ""
	if fn.Pkg != nil {
		pkg = fn.Pkg.Pkg.Name()
	}
	if recv := fn.Signature.Recv(); recv != nil {
		t := recv.Type()
		if p, ok := t.(*types.Pointer); ok {
			t = p.Elem()
		}
		if n, ok := t.(*types.Named); ok {
			return pkg + "." + n.Obj().Name() + "." + fn.Name()
		}
	}
	return pkg + "." + fn.Name()
}

// ---------------------------------------------------------------------------------
// loops

type loopInfo struct {
	headers []*ssa.BasicBlock       // in source order
	ordinal map[*ssa.BasicBlock]int // header -> ordinal
	body    map[*ssa.BasicBlock]map[*ssa.BasicBlock]bool
}

var loopCache = map[*ssa.Function]*loopInfo{}

func minPos(bs map[*ssa.BasicBlock]bool) token.Pos {
	var m token.Pos
	for b := range bs {
		for _, in := range b.Instrs {
			p := in.Pos()
			if d, ok := in.(*ssa.DebugRef); ok {
				p = d.Expr.Pos()
			}
			if p.IsValid() && (m == 0 || p < m) {
				m = p
			}
		}
	}
	return m
}

func getLoops(fn *ssa.Function) *loopInfo {
	if li, ok := loopCache[fn]; ok {
		return li
	}
	li := &loopInfo{ordinal: map[*ssa.BasicBlock]int{}, body: map[*ssa.BasicBlock]map[*ssa.BasicBlock]bool{}}
	for _, b := range fn.Blocks {
		for _, p := range b.Preds {
			if b.Dominates(p) {
				// back edge p -> b
				body := li.body[b]
				if body == nil {
					body = map[*ssa.BasicBlock]bool{b: true}
					li.body[b] = body
				}
				var stack []*ssa.BasicBlock
				if !body[p] {
					body[p] = true
					stack = append(stack, p)
				}
				for len(stack) > 0 {
					x := stack[len(stack)-1]
					stack = stack[:len(stack)-1]
					for _, q := range x.Preds {
						if !body[q] {
							body[q] = true
							stack = append(stack, q)
						}
					}
				}
			}
		}
	}
	// order by source: use positions of for/range statements in syntax where possible
	type hp struct {
		h   *ssa.BasicBlock
		pos token.Pos
		n   int
	}
	var hs []hp
	for h, body := range li.body {
		hs = append(hs, hp{h, minPos(body), len(body)})
	}
	sort.Slice(hs, func(i, j int) bool {
		if hs[i].pos != hs[j].pos {
			return hs[i].pos < hs[j].pos
		}
		if hs[i].n != hs[j].n {
			return hs[i].n > hs[j].n
		}
		return hs[i].h.Index < hs[j].h.Index
	})
	// refine with syntax order if the count matches
	var stmts []ast.Node
	if fn.Syntax() != nil {
		ast.Inspect(fn.Syntax(), func(n ast.Node) bool {
			switch n.(type) {
			case *ast.ForStmt, *ast.RangeStmt:
				stmts = append(stmts, n)
			case *ast.FuncLit:
				if n != fn.Syntax() {
					return false
				}
			}
			return true
		})
	}
	if len(stmts) == len(hs) {
		// each loop belongs to the innermost for/range statement that contains the positions of all its
		// non-phi instructions (an enclosing loop contains them too, a nested one does not); ordinals follow
		// the order of the statements in the source
		assign := make([]int, len(hs))
		used := map[int]bool{}
		ok := true
		for i, h := range hs {
			best, bestExt := -1, token.Pos(0)
			for k, st := range stmts {
				all, any := true, false
				for blk := range li.body[h.h] {
					for _, in := range blk.Instrs {
						if _, isPhi := in.(*ssa.Phi); isPhi || in.Pos() == token.NoPos {
							continue
						}
						any = true
						if in.Pos() < st.Pos() || in.Pos() > st.End() {
							all = false
						}
					}
				}
				if !all || !any {
					continue
				}
				if ext := st.End() - st.Pos(); best == -1 || ext < bestExt {
					best, bestExt = k, ext
				}
			}
			if best == -1 || used[best] {
				ok = false
				break
			}
			used[best] = true
			assign[i] = best
		}
		if ok {
			tmp := make([]hp, len(hs))
			for i := range hs {
				tmp[assign[i]] = hs[i]
			}
			hs = tmp
		}
	}
	for i, h := range hs {
		li.headers = append(li.headers, h.h)
		li.ordinal[h.h] = i
	}
	loopCache[fn] = li
	return li
}

// ---------------------------------------------------------------------------------
// values from types

func (e *Engine) isFrontendVariable(t types.Type) bool {
	n, ok := types.Unalias(t).(*types.Named)
	return ok && n.Obj().Pkg() != nil && n.Obj().Pkg().Path() == "github.com/consensys/gnark/frontend" && n.Obj().Name() == "Variable"
}

func namedPath(t types.Type) string {
	t = types.Unalias(t)
	if p, ok := t.(*types.Pointer); ok {
		return "*" + namedPath(p.Elem())
	}
	if n, ok := t.(*types.Named); ok && n.Obj().Pkg() != nil {
		return n.Obj().Pkg().Path() + "." + n.Obj().Name()
	}
	return t.String()
}

func intRange(b *types.Basic) (lo, hi *big.Int, ok bool) {
	switch b.Kind() {
	case types.Int, types.Int64, types.UntypedInt:
		return new(big.Int).Neg(bigPow2(63)), bigPow2(63), true
	case types.Int32, types.UntypedRune:
		return new(big.Int).Neg(bigPow2(31)), bigPow2(31), true
	case types.Int16:
		return new(big.Int).Neg(bigPow2(15)), bigPow2(15), true
	case types.Int8:
		return new(big.Int).Neg(bigPow2(7)), bigPow2(7), true
	case types.Uint, types.Uint64, types.Uintptr:
		return bigZero, bigPow2(64), true
	case types.Uint32:
		return bigZero, bigPow2(32), true
	case types.Uint16:
		return bigZero, bigPow2(16), true
	case types.Uint8:
		return bigZero, bigPow2(8), true
	}
	return nil, nil, false
}

func isUnsigned(t types.Type) (bool, uint) {
	b, ok := t.Underlying().(*types.Basic)
	if !ok {
		return false, 0
	}
	switch b.Kind() {
	case types.Uint, types.Uint64, types.Uintptr:
		return true, 64
	case types.Uint32:
		return true, 32
	case types.Uint16:
		return true, 16
	case types.Uint8:
		return true, 8
	}
	return false, 0
}

// funAxioms collects range axioms for uninterpreted leaf functions.
var funAxioms = map[string]string{}

type absCtx struct {
	e     *Engine
	s     *State
	facts []*Term
	depth int
}

// abstractValue creates a fresh symbolic value of a Go type.  idx is the chain of
// (possibly bound) index terms under which this value lives (for elements of symbolic slices).
func (a *absCtx) abstractValue(t types.Type, name string, idx []*Term) Value {
	e := a.e
	if e.isFrontendVariable(t) {
		return VInt{a.leaf(name, SInt, idx, bigZero, RConst)}
	}
	switch u := t.Underlying().(type) {
	case *types.Basic:
		if u.Kind() == types.Bool {
			return VBool{a.leaf(name, SBool, idx, nil, nil)}
		}
		if u.Kind() == types.String {
			return VStr{a.leaf(name, SStr, idx, nil, nil)}
		}
		if lo, hi, ok := intRange(u); ok {
			return VInt{a.leaf(name, SInt, idx, lo, hi)}
		}
		if u.Kind() == types.Float64 || u.Kind() == types.Float32 {
			return VOpaque{Kind: "float"}
		}
	case *types.Struct:
		np := namedPath(t)
		if np == "math/big.Int" {
			return VInt{a.leaf(name, SInt, idx, nil, nil)}
		}
		if np == "sync.Mutex" {
			return VOpaque{Kind: "mutex"}
		}
		if np == "github.com/consensys/gnark-crypto/field/goldilocks.Element" {
			return VInt{a.leaf(name, SInt, idx, bigZero, PConst)}
		}
		f := make([]Value, u.NumFields())
		for i := 0; i < u.NumFields(); i++ {
			f[i] = a.abstractValue(u.Field(i).Type(), name+"."+u.Field(i).Name(), idx)
		}
		return VStruct{u, f}
	case *types.Array:
		if namedPath(t) == "github.com/consensys/gnark-crypto/field/goldilocks.Element" {
			return VInt{a.leaf(name, SInt, idx, bigZero, PConst)}
		}
		n := int(u.Len())
		if n > 4096 {
			panic(execError{"array too large to abstract: " + t.String()})
		}
		el := make([]Value, n)
		for i := 0; i < n; i++ {
			el[i] = a.abstractValue(u.Elem(), fmt.Sprintf("%s.%d", name, i), idx)
		}
		return VArr{el}
	case *types.Slice:
		ln := a.leaf(name+".len", SInt, idx, bigZero, bigPow2(40))
		elemT := u.Elem()
		base := name
		idxCopy := append([]*Term(nil), idx...)
		// element values are built on demand; the abstraction context for elements only
		// registers range axioms (no path facts), so it is safe to call later.
		seq := &Seq{Sym: func(i *Term) Value {
			sub := &absCtx{e: a.e, s: nil, depth: a.depth + 1}
			return sub.abstractValue(elemT, base+"[]", append(append([]*Term(nil), idxCopy...), i))
		}, Desc: name}
		if len(idx) == 0 && a.s != nil {
			obj := newObject(name, t)
			a.s.heap[obj] = seq
			return VSlice{Obj: obj, Off: Int64C(0), Len: ln, Cap: ln}
		}
		return VSlice{Pure: seq, Off: Int64C(0), Len: ln, Cap: ln}
	case *types.Pointer:
		if len(idx) > 0 || a.s == nil {
			np := namedPath(u.Elem())
			if np == "math/big.Int" {
				// pointer to an immutable-by-convention big integer inside a symbolic container
				return VBigRef{T: a.leaf(name, SInt, idx, nil, nil)}
			}
			return VOpaque{Kind: "ptr-in-symbolic-container"}
		}
		if a.depth > 6 {
			return VOpaque{Kind: "deep-pointer"}
		}
		if n, ok := u.Elem().(*types.Named); ok && n.Obj().Pkg() != nil && !strings.HasPrefix(n.Obj().Pkg().Path(), modulePrefix) {
			np := namedPath(u.Elem())
			if np != "math/big.Int" && np != "github.com/consensys/gnark-crypto/field/goldilocks.Element" {
				return VOpaque{Kind: "extptr:" + np}
			}
		}
		obj := newObject(name, u.Elem())
		a.depth++
		a.s.heap[obj] = a.abstractValue(u.Elem(), name, idx)
		a.depth--
		return VPtr{Obj: obj}
	case *types.Interface:
		np := namedPath(t)
		switch np {
		case "github.com/consensys/gnark/frontend.API":
			return a.e.apiValue()
		case "github.com/consensys/gnark/frontend.Rangechecker":
			return VOpaque{Kind: "rangechecker", Data: a.leaf(name+".kind", SInt, idx, bigZero, big.NewInt(3))}
		case "error":
			return VIface{NilSym: a.leaf(name+".isnil", SBool, idx, nil, nil)}
		}
		return VOpaque{Kind: "iface:" + np, Data: name}
	case *types.Signature:
		return VOpaque{Kind: "func"}
	case *types.Map:
		if a.s != nil {
			obj := newObject(name, t)
			a.s.heap[obj] = &MapVal{Opaque: true}
			return VMap{Obj: obj}
		}
		return VOpaque{Kind: "map"}
	}
	panic(execError{"cannot abstract type " + t.String()})
}

// VBigRef is a *big.Int living inside a symbolic container (read-only).
type VBigRef struct{ T *Term }

func (a *absCtx) leaf(name string, s Sort, idx []*Term, lo, hi *big.Int) *Term {
	if len(idx) == 0 {
		v := Fresh(name, s)
		if lo != nil {
			a.facts = append(a.facts, Le(IntC(lo), v))
		}
		if hi != nil {
			a.facts = append(a.facts, Lt(v, IntC(hi)))
		}
		return v
	}
	// element of a symbolic container: SMT array (integers, one or two index levels) or
	// uninterpreted function of the index chain.  The name carries the container identity.
	fname := "f$" + name
	if s == SInt && (len(idx) == 1 || len(idx) == 2) {
		srt := SArr
		if len(idx) == 2 {
			srt = SArr2
		}
		arr := Var(fname, srt)
		t := Select(arr, idx[0])
		app := "(select " + smtName(fname) + " i0)"
		bs := "(i0 Int)"
		if len(idx) == 2 {
			t = Select(t, idx[1])
			app = "(select " + app + " i1)"
			bs += " (i1 Int)"
		}
		if _, ok := funAxioms[fname]; !ok && (lo != nil || hi != nil) {
			var cs []string
			if lo != nil {
				cs = append(cs, fmt.Sprintf("(<= %s %s)", smtInt(lo), app))
			}
			if hi != nil {
				cs = append(cs, fmt.Sprintf("(< %s %s)", app, smtInt(hi)))
			}
			funAxioms[fname] = fmt.Sprintf("(assert (forall (%s) (! (and %s) :pattern (%s))))", bs, strings.Join(cs, " "), app)
		}
		return t
	}
	t := App(fname, s, idx...)
	if _, ok := funAxioms[fname]; !ok && (lo != nil || hi != nil) {
		var bs, as []string
		for k := range idx {
			bs = append(bs, fmt.Sprintf("(i%d Int)", k))
			as = append(as, fmt.Sprintf("i%d", k))
		}
		app := "(" + smtName(fname) + " " + strings.Join(as, " ") + ")"
		var cs []string
		if lo != nil {
			cs = append(cs, fmt.Sprintf("(<= %s %s)", smtInt(lo), app))
		}
		if hi != nil {
			cs = append(cs, fmt.Sprintf("(< %s %s)", app, smtInt(hi)))
		}
		funAxioms[fname] = fmt.Sprintf("(assert (forall (%s) (! (and %s) :pattern (%s))))", strings.Join(bs, " "), strings.Join(cs, " "), app)
	}
	return t
}

var apiSeq = 0

func (e *Engine) apiValue() Value {
	apiSeq++
	return VOpaque{Kind: "api", ID: apiSeq, Data: &apiInfo{isRC: Fresh("api.isRangechecker", SBool), isCommitter: Fresh("api.isCommitter", SBool)}}
}

type apiInfo struct {
	isRC        *Term
	isCommitter *Term
}

// uniqueName makes container names unique so that uninterpreted leaf functions of
// different containers never collide.
var nameSeq = map[string]int{}

func uniqueName(n string) string {
	nameSeq[n]++
	if nameSeq[n] == 1 {
		return n
	}
	return fmt.Sprintf("%s~%d", n, nameSeq[n])
}

// ---------------------------------------------------------------------------------
// heap access

func (e *Engine) loadPath(s *State, v interface{}, path []PathElem, pos token.Pos) Value {
	cur := v
	for _, pe := range path {
		switch x := cur.(type) {
		case VStruct:
			cur = x.F[pe.Field]
		case VArr:
			sq := &Seq{Conc: x.E}
			r, ok := sq.at(pe.Index)
			if !ok {
				panic(execError{"array index out of range at " + e.posOf(pos)})
			}
			cur = r
		case *Seq:
			r, ok := x.at(pe.Index)
			if !ok {
				panic(pathEnd{"index out of range (concrete)"})
			}
			cur = r
		case VSlice:
			// a slice held inline (value semantics) inside a structure
			if x.Pure == nil {
				panic(execError{"loadPath through a heap-backed slice at " + e.posOf(pos)})
			}
			r, ok := x.Pure.at(pe.Index)
			if !ok {
				panic(pathEnd{"index out of range (concrete)"})
			}
			cur = r
		default:
			panic(execError{fmt.Sprintf("loadPath through %T at %s", cur, e.posOf(pos))})
		}
	}
	if sq, ok := cur.(*Seq); ok {
		_ = sq
		panic(execError{"load of whole backing store"})
	}
	return cur.(Value)
}

func (e *Engine) storePath(v interface{}, path []PathElem, nv Value) interface{} {
	if len(path) == 0 {
		return nv
	}
	pe := path[0]
	switch x := v.(type) {
	case VStruct:
		f := make([]Value, len(x.F))
		copy(f, x.F)
		f[pe.Field] = e.storePath(x.F[pe.Field], path[1:], nv).(Value)
		return VStruct{x.T, f}
	case VArr:
		if pe.Index.IsConst() {
			k := int(pe.Index.Val.Int64())
			f := make([]Value, len(x.E))
			copy(f, x.E)
			if k < 0 || k >= len(f) {
				panic(pathEnd{"array store out of range"})
			}
			f[k] = e.storePath(x.E[k], path[1:], nv).(Value)
			return VArr{f}
		}
		f := make([]Value, len(x.E))
		for k := range x.E {
			upd := e.storePath(x.E[k], path[1:], nv).(Value)
			f[k] = mergeValues(Eq(pe.Index, Int64C(int64(k))), upd, x.E[k])
		}
		return VArr{f}
	case *Seq:
		old, ok := x.at(pe.Index)
		if !ok {
			panic(pathEnd{"slice store out of range"})
		}
		return x.set(pe.Index, e.storePath(old, path[1:], nv).(Value))
	case VSlice:
		if x.Pure == nil {
			panic(execError{"storePath through a heap-backed slice"})
		}
		old, ok := x.Pure.at(pe.Index)
		if !ok {
			panic(pathEnd{"slice store out of range"})
		}
		n := x
		n.Home = nil
		n.Pure = x.Pure.set(pe.Index, e.storePath(old, path[1:], nv).(Value))
		return n
	}
	panic(execError{fmt.Sprintf("storePath through %T", v)})
}

type pathEnd struct{ why string }

func (e *Engine) load(s *State, p VPtr, pos token.Pos) Value {
	if p.Obj == nil {
		panic(pathEnd{"nil dereference"})
	}
	root, ok := s.heap[p.Obj]
	if !ok {
		if gv, ok2 := e.globalVal[p.Obj]; ok2 {
			root = gv
		} else {
			panic(execError{"load from unknown object " + p.Obj.name + " at " + e.posOf(pos)})
		}
	}
	v := e.loadPath(s, root, p.Path, pos)
	if sl, ok := v.(VSlice); ok && sl.Obj == nil && sl.Pure != nil && sl.Off.IsConst() && sl.Off.Val.Sign() == 0 {
		home := p
		sl.Home = &home
		return sl
	}
	return v
}

func (e *Engine) store(s *State, p VPtr, v Value, pos token.Pos) {
	if p.Obj == nil {
		panic(pathEnd{"nil dereference"})
	}
	root, ok := s.heap[p.Obj]
	if !ok {
		if gv, ok2 := e.globalVal[p.Obj]; ok2 {
			root = gv
		} else {
			panic(execError{"store to unknown object " + p.Obj.name})
		}
	}
	// a structure or slice stored at a symbolic position of a sequence is kept inline: slices inside it become
	// value-semantics snapshots whose elements are addressed through the enclosing path
	for _, pe := range p.Path {
		if pe.Index != nil && !pe.Index.IsConst() {
			if pv := e.purify(s, v); pv != nil {
				v = pv
				e.note("slices stored inside sequences at symbolic positions are modelled inline (value semantics; no aliasing between such slices)")
			}
			break
		}
	}
	s.heap[p.Obj] = e.storePath(root, p.Path, v)
}

// purify replaces heap-backed slices inside a value by inline snapshots; nil if there is none.
func (e *Engine) purify(s *State, v Value) Value {
	changed := false
	var rec func(v Value) Value
	rec = func(v Value) Value {
		switch x := v.(type) {
		case VSlice:
			if x.Obj == nil {
				x.Home = nil
				return x
			}
			changed = true
			sq := e.sliceSeq(s, x)
			off := x.Off
			return VSlice{Pure: &Seq{Sym: func(i *Term) Value {
				el, ok := sq.at(Add(off, i))
				if !ok {
					panic(pathEnd{"slice index out of range (concrete)"})
				}
				return rec(el)
			}, Desc: "inline"}, Off: Int64C(0), Len: x.Len, Cap: x.Len}
		case VStruct:
			f := make([]Value, len(x.F))
			for i := range f {
				f[i] = rec(x.F[i])
			}
			return VStruct{x.T, f}
		}
		return v
	}
	out := rec(v)
	if !changed {
		return nil
	}
	return out
}

// sliceSeq returns the backing sequence of a slice.
func (e *Engine) sliceSeq(s *State, sl VSlice) *Seq {
	if sl.Pure != nil {
		return sl.Pure
	}
	if sl.Obj == nil {
		return &Seq{Conc: []Value{}}
	}
	hv, ok := s.heap[sl.Obj]
	if !ok {
		hv = e.globalVal[sl.Obj]
	}
	switch x := hv.(type) {
	case *Seq:
		return x
	case VArr:
		return &Seq{Conc: x.E}
	}
	panic(execError{"slice backing store missing for " + sl.Obj.name})
}

func (e *Engine) sliceAt(s *State, sl VSlice, i *Term) Value {
	sq := e.sliceSeq(s, sl)
	v, ok := sq.at(Add(sl.Off, i))
	if !ok {
		panic(pathEnd{"slice index out of range (concrete)"})
	}
	return v
}

// toPure converts a slice to a heap-independent snapshot.
func (e *Engine) toPure(s *State, sl VSlice) VSlice {
	if sl.Pure != nil || (sl.Obj == nil) {
		return sl
	}
	sq := e.sliceSeq(s, sl)
	return VSlice{Pure: sq, Off: sl.Off, Len: sl.Len, Cap: sl.Cap}
}

// ---------------------------------------------------------------------------------
// constants

func (e *Engine) constValue(c *ssa.Const) Value {
	t := c.Type()
	if c.Value == nil {
		// zero value / nil
		return e.zeroValue(t)
	}
	switch c.Value.Kind() {
	case constant.Bool:
		return VBool{BoolC(constant.BoolVal(c.Value))}
	case constant.String:
		return VStr{StrC(constant.StringVal(c.Value))}
	case constant.Int:
		bi, ok := new(big.Int).SetString(c.Value.ExactString(), 10)
		if !ok {
			panic(execError{"bad int const"})
		}
		if b, ok := t.Underlying().(*types.Basic); ok && (b.Info()&types.IsFloat) != 0 {
			f, _ := new(big.Float).SetInt(bi).Float64()
			return VFloat{f}
		}
		return VInt{IntC(bi)}
	case constant.Float:
		f, _ := constant.Float64Val(c.Value)
		if b, ok := t.Underlying().(*types.Basic); ok && (b.Info()&types.IsInteger) != 0 {
			return VInt{Int64C(int64(f))}
		}
		return VFloat{f}
	}
	panic(execError{"unsupported constant " + c.String()})
}

type VFloat struct{ F float64 }

func (e *Engine) zeroValue(t types.Type) Value {
	if e.isFrontendVariable(t) {
		return VIface{} // nil interface
	}
	switch u := t.Underlying().(type) {
	case *types.Basic:
		switch {
		case u.Kind() == types.Bool:
			return VBool{BoolC(false)}
		case u.Kind() == types.String:
			return VStr{StrC("")}
		case u.Info()&types.IsInteger != 0:
			return VInt{Int64C(0)}
		case u.Info()&types.IsFloat != 0:
			return VFloat{0}
		case u.Kind() == types.UntypedNil:
			return VNilT{}
		case u.Kind() == types.UnsafePointer:
			return VPtr{}
		}
	case *types.Struct:
		np := namedPath(t)
		if np == "math/big.Int" {
			return VInt{Int64C(0)}
		}
		if np == "sync.Mutex" {
			return VOpaque{Kind: "mutex"}
		}
		f := make([]Value, u.NumFields())
		for i := range f {
			f[i] = e.zeroValue(u.Field(i).Type())
		}
		return VStruct{u, f}
	case *types.Array:
		if namedPath(t) == "github.com/consensys/gnark-crypto/field/goldilocks.Element" {
			return VInt{Int64C(0)}
		}
		el := make([]Value, u.Len())
		for i := range el {
			el[i] = e.zeroValue(u.Elem())
		}
		return VArr{el}
	case *types.Slice:
		return VSlice{Off: Int64C(0), Len: Int64C(0), Cap: Int64C(0)}
	case *types.Pointer:
		return VPtr{}
	case *types.Interface:
		return VIface{}
	case *types.Signature:
		return VFunc{}
	case *types.Map:
		return VMap{}
	case *types.Tuple:
		el := make([]Value, u.Len())
		for i := range el {
			el[i] = e.zeroValue(u.At(i).Type())
		}
		return VTuple{el}
	}
	panic(execError{"zero value of " + t.String()})
}

// ---------------------------------------------------------------------------------
// operand evaluation

func (e *Engine) val(s *State, f *Frame, v ssa.Value) Value {
	switch x := v.(type) {
	case *ssa.Const:
		return e.constValue(x)
	case *ssa.Function:
		return VFunc{Fn: x}
	case *ssa.Global:
		return VPtr{Obj: e.globalObject(x)}
	case *ssa.Builtin:
		return VFunc{Ext: "builtin:" + x.Name()}
	}
	if r, ok := f.env[v]; ok {
		return r
	}
	panic(execError{fmt.Sprintf("value %s (%T) not in environment in %s", v.Name(), v, f.fn.Name())})
}

func asInt(v Value) *Term {
	switch x := v.(type) {
	case VInt:
		return x.T
	case VIface:
		if x.V != nil {
			return asInt(x.V)
		}
	case VBigRef:
		return x.T
	}
	panic(execError{fmt.Sprintf("expected integer value, got %T", v)})
}

func asBool(v Value) *Term {
	switch x := v.(type) {
	case VBool:
		return x.T
	}
	panic(execError{fmt.Sprintf("expected bool value, got %T", v)})
}

// altResult: an external-call model with two outcomes.  The main path continues with the returned
// value under `cond`; a forked path continues with `val` under ¬cond.
type altResult struct {
	cond  *Term
	val   Value
	facts []*Term // assumed on the main path only
}

// splitRangeGoal: a goal  forall c in [lo, U+1): B(c)  (the shape of a quantified loop invariant after one
// more iteration) is split into the old range  forall c in [lo, U): B(c)  and the new instance
// lo <= U => B(U); the conjunction of the two is the original goal.
func splitRangeGoal(goal *Term) ([]*Term, *Term) {
	if goal.Op != "forall" || strings.Contains(goal.Name, ",") {
		return []*Term{goal}, nil
	}
	body := goal.Args[0]
	if body.Op != "=>" || body.Args[0].Op != "and" || len(body.Args[0].Args) != 2 {
		return []*Term{goal}, nil
	}
	c := Bound(goal.Name, SInt)
	lo, hi := body.Args[0].Args[0], body.Args[0].Args[1]
	if lo.Op != "<=" || lo.Args[1] != c || hi.Op != "<" || hi.Args[0] != c {
		return []*Term{goal}, nil
	}
	up := hi.Args[1]
	var u *Term
	if up.Op == "+" && len(up.Args) == 2 {
		if up.Args[1].IsConst() && up.Args[1].Val.IsInt64() && up.Args[1].Val.Int64() == 1 {
			u = up.Args[0]
		} else if up.Args[0].IsConst() && up.Args[0].Val.IsInt64() && up.Args[0].Val.Int64() == 1 {
			u = up.Args[1]
		}
	}
	if u == nil || containsTerm(u, c) {
		return []*Term{goal}, nil
	}
	g1 := Forall([]*Term{c}, Implies(And(lo, Lt(c, u)), body.Args[1]))
	g2 := Implies(Le(lo.Args[0], u), Subst(body.Args[1], map[*Term]*Term{c: u}))
	return []*Term{g1, g2}, u
}

// instancesAt: the single-variable universal facts of the path condition instantiated at one term.
func instancesAt(pc []*Term, at *Term) []*Term {
	var out []*Term
	var visit func(h *Term)
	visit = func(h *Term) {
		switch h.Op {
		case "and":
			for _, a := range h.Args {
				visit(a)
			}
		case "forall":
			if !strings.Contains(h.Name, ",") && len(out) < 200 {
				out = append(out, Subst(h.Args[0], map[*Term]*Term{Bound(h.Name, SInt): at}))
			}
		}
	}
	for _, h := range pc {
		visit(h)
	}
	return out
}
