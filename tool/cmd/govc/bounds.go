package main

// Interval reasoning used only to *instantiate* the product-bound lemma
//   0<=lo1<=a<=hi1 ∧ 0<=lo2<=b<=hi2  ⇒  lo1*lo2 <= a*b <= hi1*hi2
// for the nonlinear products that occur in a VC.  Each instance is an implication whose
// premises the solver has to prove itself, so a wrong interval here can never make a VC
// unsound; it only fails to help.

import "math/big"

type ival struct{ lo, hi *big.Int } // nil = unbounded

func atomBounds(hyps []*Term) map[*Term]*ival {
	m := map[*Term]*ival{}
	get := func(t *Term) *ival {
		if v, ok := m[t]; ok {
			return v
		}
		v := &ival{}
		m[t] = v
		return v
	}
	setLo := func(t *Term, c *big.Int) {
		v := get(t)
		if v.lo == nil || c.Cmp(v.lo) > 0 {
			v.lo = c
		}
	}
	setHi := func(t *Term, c *big.Int) {
		v := get(t)
		if v.hi == nil || c.Cmp(v.hi) < 0 {
			v.hi = c
		}
	}
	var scan func(h *Term)
	scan = func(h *Term) {
		switch h.Op {
		case "and":
			for _, a := range h.Args {
				scan(a)
			}
		case "<=":
			a, b := h.Args[0], h.Args[1]
			if a.IsConst() && !b.IsConst() {
				setLo(b, a.Val)
			} else if b.IsConst() && !a.IsConst() {
				setHi(a, b.Val)
			}
		case "<":
			a, b := h.Args[0], h.Args[1]
			if a.IsConst() && !b.IsConst() {
				setLo(b, new(big.Int).Add(a.Val, bigOne))
			} else if b.IsConst() && !a.IsConst() {
				setHi(a, new(big.Int).Sub(b.Val, bigOne))
			}
		case "=":
			a, b := h.Args[0], h.Args[1]
			if a.IsConst() && !b.IsConst() {
				setLo(b, a.Val)
				setHi(b, a.Val)
			} else if b.IsConst() && !a.IsConst() {
				setLo(a, b.Val)
				setHi(a, b.Val)
			}
		case "or":
			// (or (= b 0) (= b 1)) style boolean facts
			var t *Term
			lo, hi := (*big.Int)(nil), (*big.Int)(nil)
			ok := true
			for _, a := range h.Args {
				if a.Op != "=" {
					ok = false
					break
				}
				x, c := a.Args[0], a.Args[1]
				if x.IsConst() {
					x, c = c, x
				}
				if !c.IsConst() || (t != nil && t != x) {
					ok = false
					break
				}
				t = x
				if lo == nil || c.Val.Cmp(lo) < 0 {
					lo = c.Val
				}
				if hi == nil || c.Val.Cmp(hi) > 0 {
					hi = c.Val
				}
			}
			if ok && t != nil {
				setLo(t, lo)
				setHi(t, hi)
			}
		}
	}
	for _, h := range hyps {
		scan(h)
	}
	return m
}

type boundCalc struct {
	atoms map[*Term]*ival
	memo  map[*Term]*ival
	arrs  map[*Term]*ival // element bounds of arrays, from quantified range facts (hints only)
}

// arrayBounds extracts element bounds from hypotheses of the shape
//   forall k. lo<=k<hi => (and ... (<= c (select A k)) (< (select A k) C) ...)
// They are used only to instantiate lemma hints whose premises the solver proves itself.
func arrayBounds(hyps []*Term) map[*Term]*ival {
	out := map[*Term]*ival{}
	note := func(a *Term, lo, hi *big.Int) {
		v := out[a]
		if v == nil {
			v = &ival{}
			out[a] = v
		}
		if lo != nil && (v.lo == nil || lo.Cmp(v.lo) > 0) {
			v.lo = lo
		}
		if hi != nil && (v.hi == nil || hi.Cmp(v.hi) < 0) {
			v.hi = hi
		}
	}
	var scanBody func(t *Term)
	scanBody = func(t *Term) {
		switch t.Op {
		case "and":
			for _, a := range t.Args {
				scanBody(a)
			}
		case "=>":
			scanBody(t.Args[1])
		case "forall":
			scanBody(t.Args[0])
		case "<=":
			a, b := t.Args[0], t.Args[1]
			if a.IsConst() && b.Op == "select" && b.Args[0].Op == "var" {
				note(b.Args[0], a.Val, nil)
			} else if b.IsConst() && a.Op == "select" && a.Args[0].Op == "var" {
				note(a.Args[0], nil, b.Val)
			}
		case "<":
			a, b := t.Args[0], t.Args[1]
			if a.IsConst() && b.Op == "select" && b.Args[0].Op == "var" {
				note(b.Args[0], new(big.Int).Add(a.Val, bigOne), nil)
			} else if b.IsConst() && a.Op == "select" && a.Args[0].Op == "var" {
				note(a.Args[0], nil, new(big.Int).Sub(b.Val, bigOne))
			}
		}
	}
	for _, h := range hyps {
		if h.Op == "forall" {
			scanBody(h)
		}
	}
	return out
}

func (b *boundCalc) of(t *Term) *ival {
	if v, ok := b.memo[t]; ok {
		return v
	}
	r := b.calc(t)
	if a, ok := b.atoms[t]; ok {
		if a.lo != nil && (r.lo == nil || a.lo.Cmp(r.lo) > 0) {
			r.lo = a.lo
		}
		if a.hi != nil && (r.hi == nil || a.hi.Cmp(r.hi) < 0) {
			r.hi = a.hi
		}
	}
	b.memo[t] = r
	return r
}

func (b *boundCalc) calc(t *Term) *ival {
	switch t.Op {
	case "const":
		return &ival{t.Val, t.Val}
	case "select":
		if b.arrs != nil && t.Args[0].Op == "var" {
			if v, ok := b.arrs[t.Args[0]]; ok {
				return &ival{v.lo, v.hi}
			}
		}
		return &ival{}
	case "+":
		x, y := b.of(t.Args[0]), b.of(t.Args[1])
		r := &ival{}
		if x.lo != nil && y.lo != nil {
			r.lo = new(big.Int).Add(x.lo, y.lo)
		}
		if x.hi != nil && y.hi != nil {
			r.hi = new(big.Int).Add(x.hi, y.hi)
		}
		return r
	case "-":
		x, y := b.of(t.Args[0]), b.of(t.Args[1])
		r := &ival{}
		if x.lo != nil && y.hi != nil {
			r.lo = new(big.Int).Sub(x.lo, y.hi)
		}
		if x.hi != nil && y.lo != nil {
			r.hi = new(big.Int).Sub(x.hi, y.lo)
		}
		return r
	case "*":
		x, y := b.of(t.Args[0]), b.of(t.Args[1])
		if x.lo != nil && y.lo != nil && x.lo.Sign() >= 0 && y.lo.Sign() >= 0 {
			r := &ival{lo: new(big.Int).Mul(x.lo, y.lo)}
			if x.hi != nil && y.hi != nil {
				r.hi = new(big.Int).Mul(x.hi, y.hi)
			}
			return r
		}
		return &ival{}
	case "mod":
		if t.Args[1].IsConst() && t.Args[1].Val.Sign() > 0 {
			c := t.Args[1].Val
			x := b.of(t.Args[0])
			if x.lo != nil && x.hi != nil && x.lo.Sign() >= 0 && x.hi.Cmp(c) < 0 {
				return &ival{x.lo, x.hi}
			}
			return &ival{bigZero, new(big.Int).Sub(c, bigOne)}
		}
	case "div":
		if t.Args[1].IsConst() && t.Args[1].Val.Sign() > 0 {
			c := t.Args[1].Val
			x := b.of(t.Args[0])
			r := &ival{}
			if x.lo != nil {
				q, _ := new(big.Int).DivMod(x.lo, c, new(big.Int))
				r.lo = q
			}
			if x.hi != nil {
				q, _ := new(big.Int).DivMod(x.hi, c, new(big.Int))
				r.hi = q
			}
			return r
		}
	case "ite":
		x, y := b.of(t.Args[1]), b.of(t.Args[2])
		r := &ival{}
		if x.lo != nil && y.lo != nil {
			r.lo = x.lo
			if y.lo.Cmp(r.lo) < 0 {
				r.lo = y.lo
			}
		}
		if x.hi != nil && y.hi != nil {
			r.hi = x.hi
			if y.hi.Cmp(r.hi) > 0 {
				r.hi = y.hi
			}
		}
		return r
	}
	return &ival{}
}

// boundLemmas returns lemma instances for the products in the VC.
func boundLemmas(hyps []*Term, all []*Term) []*Term {
	bc := &boundCalc{atoms: atomBounds(hyps), memo: map[*Term]*ival{}, arrs: arrayBounds(hyps)}
	seen := map[*Term]bool{}
	var out []*Term
	var rec func(t *Term, underQ bool)
	rec = func(t *Term, underQ bool) {
		if seen[t] {
			return
		}
		seen[t] = true
		if t.Op == "forall" || t.Op == "exists" {
			underQ = true
		}
		for _, a := range t.Args {
			rec(a, underQ)
		}
		if t.Op == "mod" && !underQ && t.Args[1].IsConst() && t.Args[1].Val.Sign() > 0 && !t.Args[0].IsConst() {
			x := bc.of(t.Args[0])
			if x.lo != nil && x.hi != nil && x.lo.Sign() >= 0 && x.hi.Cmp(t.Args[1].Val) < 0 {
				a := t.Args[0]
				out = append(out, Implies(And(Le(IntC(x.lo), a), Le(a, IntC(x.hi))), Eq(t, a)))
			}
		}
		if t.Op == "*" && !underQ && !t.Args[0].IsConst() && !t.Args[1].IsConst() {
			x, y := bc.of(t.Args[0]), bc.of(t.Args[1])
			if x.lo != nil && x.hi != nil && y.lo != nil && y.hi != nil && x.lo.Sign() >= 0 && y.lo.Sign() >= 0 {
				a, b := t.Args[0], t.Args[1]
				prem := And(Le(IntC(x.lo), a), Le(a, IntC(x.hi)), Le(IntC(y.lo), b), Le(b, IntC(y.hi)))
				concl := And(Le(IntC(new(big.Int).Mul(x.lo, y.lo)), t), Le(t, IntC(new(big.Int).Mul(x.hi, y.hi))))
				out = append(out, Implies(prem, concl))
			}
		}
	}
	for _, t := range all {
		rec(t, false)
	}
	return out
}
