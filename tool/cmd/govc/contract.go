package main

// Contracts are Gobra-style `//@` comment blocks in `*_verif.go` files (build tag
// `verif`, comment-only) next to the code in /repo.  This file parses them.

import (
	"fmt"
	"go/ast"
	"go/parser"
	"go/token"
	"golang.org/x/tools/go/ssa"
	"regexp"
	"sort"
	"strconv"
	"strings"
)

type Clause struct {
	Props   []string // when set: the clause belongs to these properties only
	OwnOnly bool     // exported to callers only in checks of those properties
	Expr    ast.Expr
	Src     string
	Mode    string // "", "sound", "complete"
	Line    int
	Tag     string // optional label (`ensures[name] ...`)
}

type Contract struct {
	Pkg         string // package path
	Recv        string // receiver type name ("" for functions)
	Name        string
	Header      string
	Fn          *ssa.Function
	ParamNames  []string // receiver (if any) then parameters, as named in the contract header
	Locals      []string // `locals` clause: the function's local variables, in declaration order, when the contract was written
	Props       []string
	Kind        string // circuit | plain
	ResultNames []string
	Requires    []Clause
	Ensures     []Clause
	Honest      []Clause
	LoopInv     map[int][]Clause
	LoopUse     map[int][]Clause
	Modifies    []Clause
	Asserts     []Clause
	Uses        []Clause
	UsesAtRet   []Clause
	Ghosts      []ghostDecl
	Cases       []caseSplit
	AtCall      map[string][]Clause // "pkg.Recv.Fn#k": what must hold of the arguments at that static call site
	LetAtCall   map[string][]Clause // "pkg.Recv.Fn#k": ghost definitions (assumed) naming the result of that call
	Calls       []string            // every returning path has called these module functions
	LoopCalls   map[int][]string    // every iteration of loop N calls these module functions
	Logicals    []logicalDecl       // universally quantified specification variables (fresh at entry)
	RefusalImp  []Clause            // every refusal (panic) path must satisfy these (entry-state expressions)
	Flags       map[string]bool
	HintNames   []string
	File        string
	Line        int
}

func (c *Contract) Key() string {
	if c.Recv != "" {
		return c.Recv + "." + c.Name
	}
	return c.Name
}

type ghostDecl struct {
	Name     string
	TypeExpr string
	Init     ast.Expr // optional: the witness inside the function (default: the local of that name)
}

type caseSplit struct {
	Param  string
	Lo, Hi int
	Quick  []int // non-empty: the values explored in the quick tier (the thorough tier explores all)
}

type logicalDecl struct {
	Name string
	Kind string // string | int
}

type Macro struct {
	Opaque bool
	Name   string
	Params []string
	Body   ast.Expr
	Src    string
}

type Lemma struct {
	Name   string
	Params []string
	Body   ast.Expr
	Src    string
	Props  []string
	Reveal []string
	Axiom  bool
	File   string
	Line   int
}

type RecDef struct {
	Name     string
	Params   []string
	Kinds    []string
	ResKind  string
	Body     ast.Expr
	Src      string
	compiled bool
}

type ContractSet struct {
	RecDefs   map[string]*RecDef
	Contracts []*Contract
	Macros    map[string]*Macro
	MapInvs   map[string]*Macro
	Lemmas    []*Lemma
}

var kwRe = regexp.MustCompile(`^(func|locals|def|recdef|opaque|reveal|mapinv|lemma|axiom|assert|use_at_return|use|ghost|cases|let_at_call|at_call|calls|logical|refusal_implies|props|circuit|plain|requires|ensures|honest|loop|modifies|flag|hint|sound_ensures|complete_ensures|sound_requires|complete_requires)\b`)

func endsOpen(s string) bool {
	s = strings.TrimSpace(s)
	depth := 0
	for _, c := range s {
		switch c {
		case '(', '[':
			depth++
		case ')', ']':
			depth--
		}
	}
	if depth > 0 {
		return true
	}
	for _, suf := range []string{"&&", "||", "+", "-", "*", ",", "==", "<=", "<", ">=", ">", "%", "/", "="} {
		if strings.HasSuffix(s, suf) {
			return true
		}
	}
	return false
}

func parseExprSrc(src string) (ast.Expr, error) {
	e, err := parser.ParseExpr(src)
	if err != nil {
		return nil, fmt.Errorf("contract expression %q: %v", src, err)
	}
	return e, nil
}

// ParseContractComments parses the //@ lines of one file.
func ParseContractComments(pkgPath, file string, fset *token.FileSet, f *ast.File, cs *ContractSet) error {
	type line struct {
		text string
		no   int
	}
	var lines []line
	for _, cg := range f.Comments {
		for _, c := range cg.List {
			if strings.HasPrefix(c.Text, "//@") {
				t := strings.TrimPrefix(c.Text, "//@")
				lines = append(lines, line{t, fset.Position(c.Pos()).Line})
			}
		}
	}
	// join continuation lines
	var stmts []line
	for i := 0; i < len(lines); i++ {
		t := strings.TrimSpace(lines[i].text)
		if idx := strings.Index(t, " // "); idx >= 0 {
			t = strings.TrimSpace(t[:idx])
		}
		if t == "" {
			continue
		}
		no := lines[i].no
		for endsOpen(t) && i+1 < len(lines) {
			nt := strings.TrimSpace(lines[i+1].text)
			if idx := strings.Index(nt, " // "); idx >= 0 {
				nt = strings.TrimSpace(nt[:idx])
			}
			if nt == "" || kwRe.MatchString(nt) {
				break
			}
			t += " " + nt
			i++
		}
		stmts = append(stmts, line{t, no})
	}
	var cur *Contract
	for _, st := range stmts {
		t := st.text
		fail := func(err error) error {
			return fmt.Errorf("%s:%d: %v", file, st.no, err)
		}
		switch {
		case strings.HasPrefix(t, "def "), strings.HasPrefix(t, "opaque def "):
			opq := strings.HasPrefix(t, "opaque ")
			m, err := parseDef(t[strings.Index(t, "def ")+4:])
			if err != nil {
				return fail(err)
			}
			m.Opaque = opq
			cs.Macros[m.Name] = m
		case strings.HasPrefix(t, "recdef "):
			rd, err := parseRecDef(t[7:])
			if err != nil {
				return fail(err)
			}
			if cs.RecDefs == nil {
				cs.RecDefs = map[string]*RecDef{}
			}
			cs.RecDefs[rd.Name] = rd
		case strings.HasPrefix(t, "mapinv "):
			m, err := parseDef(t[7:])
			if err != nil {
				return fail(err)
			}
			if cs.MapInvs == nil {
				cs.MapInvs = map[string]*Macro{}
			}
			cs.MapInvs[m.Name] = m
		case strings.HasPrefix(t, "lemma "), strings.HasPrefix(t, "axiom "):
			m, err := parseDef(t[6:])
			if err != nil {
				return fail(err)
			}
			cs.Lemmas = append(cs.Lemmas, &Lemma{Name: m.Name, Params: m.Params, Body: m.Body, Src: m.Src, Axiom: strings.HasPrefix(t, "axiom ")})
			cur = nil
		case strings.HasPrefix(t, "func "):
			c, err := parseHeader(t)
			if err != nil {
				return fail(err)
			}
			c.Pkg = pkgPath
			c.File = file
			c.Line = st.no
			cs.Contracts = append(cs.Contracts, c)
			cur = c
		default:
			if strings.HasPrefix(t, "props ") && cur == nil && len(cs.Lemmas) > 0 {
				l := cs.Lemmas[len(cs.Lemmas)-1]
				l.Props = strings.Fields(t[6:])
				continue
			}
			if strings.HasPrefix(t, "reveal ") && cur == nil && len(cs.Lemmas) > 0 {
				l := cs.Lemmas[len(cs.Lemmas)-1]
				l.Reveal = append(l.Reveal, strings.Fields(t[7:])...)
				continue
			}
			if cur == nil {
				return fail(fmt.Errorf("clause outside a contract: %q", t))
			}
			if err := parseClause(cur, t, st.no); err != nil {
				return fail(err)
			}
		}
	}
	return nil
}

func parseDef(s string) (*Macro, error) {
	eq := strings.Index(s, "=")
	// find the '=' that follows the closing paren of the parameter list
	rp := strings.Index(s, ")")
	if rp < 0 || eq < 0 {
		return nil, fmt.Errorf("bad def %q", s)
	}
	eq = rp + strings.Index(s[rp:], "=")
	head := strings.TrimSpace(s[:rp])
	lp := strings.Index(head, "(")
	name := strings.TrimSpace(head[:lp])
	var params []string
	for _, p := range strings.Split(head[lp+1:], ",") {
		p = strings.TrimSpace(p)
		if p != "" {
			params = append(params, p)
		}
	}
	body := strings.TrimSpace(s[eq+1:])
	e, err := parseExprSrc(body)
	if err != nil {
		return nil, err
	}
	return &Macro{Name: name, Params: params, Body: e, Src: body}, nil
}

func parseHeader(t string) (*Contract, error) {
	src := "package x\n" + t + " {}\n"
	fset := token.NewFileSet()
	f, err := parser.ParseFile(fset, "h.go", src, 0)
	if err != nil {
		return nil, fmt.Errorf("contract header %q: %v", t, err)
	}
	fd := f.Decls[0].(*ast.FuncDecl)
	c := &Contract{Name: fd.Name.Name, Header: t, LoopInv: map[int][]Clause{}, Flags: map[string]bool{}, Kind: "plain"}
	if fd.Recv != nil && len(fd.Recv.List) == 1 {
		ty := fd.Recv.List[0].Type
		if st, ok := ty.(*ast.StarExpr); ok {
			ty = st.X
		}
		if id, ok := ty.(*ast.Ident); ok {
			c.Recv = id.Name
		}
	}
	if fd.Recv != nil && len(fd.Recv.List) == 1 {
		if len(fd.Recv.List[0].Names) == 1 {
			c.ParamNames = append(c.ParamNames, fd.Recv.List[0].Names[0].Name)
		} else {
			c.ParamNames = append(c.ParamNames, "")
		}
	}
	if fd.Type.Params != nil {
		for _, p := range fd.Type.Params.List {
			for _, n := range p.Names {
				c.ParamNames = append(c.ParamNames, n.Name)
			}
			if len(p.Names) == 0 {
				c.ParamNames = append(c.ParamNames, "")
			}
		}
	}
	if fd.Type.Results != nil {
		for _, r := range fd.Type.Results.List {
			for _, n := range r.Names {
				c.ResultNames = append(c.ResultNames, n.Name)
			}
			if len(r.Names) == 0 {
				c.ResultNames = append(c.ResultNames, "")
			}
		}
	}
	return c, nil
}

var tagRe = regexp.MustCompile(`^(\w+)\[([\w\-]+)\]\s+(.*)$`)

func parseClause(c *Contract, t string, no int) error {
	kw := strings.Fields(t)[0]
	rest := strings.TrimSpace(t[len(kw):])
	tag := ""
	if m := tagRe.FindStringSubmatch(t); m != nil {
		kw, tag, rest = m[1], m[2], m[3]
	}
	mk := func(mode string) (Clause, error) {
		e, err := parseExprSrc(rest)
		if err != nil {
			return Clause{}, err
		}
		return Clause{Expr: e, Src: rest, Mode: mode, Line: no, Tag: tag}, nil
	}
	switch kw {
	case "props":
		c.Props = strings.Fields(rest)
	case "locals":
		c.Locals = strings.Fields(rest)
	case "circuit", "plain":
		c.Kind = kw
		for _, fl := range strings.Fields(rest) {
			c.Flags[fl] = true
		}
	case "flag":
		for _, fl := range strings.Fields(rest) {
			c.Flags[fl] = true
		}
	case "requires", "sound_requires", "complete_requires":
		mode := ""
		if kw != "requires" {
			mode = strings.TrimSuffix(kw, "_requires")
		}
		cl, err := mk(mode)
		if err != nil {
			return err
		}
		c.Requires = append(c.Requires, cl)
	case "ensures", "sound_ensures", "complete_ensures":
		mode := ""
		if kw != "ensures" {
			mode = strings.TrimSuffix(kw, "_ensures")
		}
		cl, err := mk(mode)
		if err != nil {
			return err
		}
		c.Ensures = append(c.Ensures, cl)
	case "honest":
		cl, err := mk("complete")
		if err != nil {
			return err
		}
		c.Honest = append(c.Honest, cl)
	case "modifies":
		cl, err := mk("")
		if err != nil {
			return err
		}
		c.Modifies = append(c.Modifies, cl)
	case "reveal":
		for _, fl := range strings.Fields(rest) {
			c.Flags["reveal:"+fl] = true
		}
	case "ghost":
		fs := strings.Fields(rest)
		if len(fs) < 2 {
			return fmt.Errorf("ghost <name> <type>")
		}
		g := ghostDecl{Name: fs[0], TypeExpr: strings.TrimSpace(rest[len(fs[0]):])}
		if i := strings.Index(g.TypeExpr, " = "); i >= 0 {
			ie, err := parseExprSrc(strings.TrimSpace(g.TypeExpr[i+3:]))
			if err != nil {
				return err
			}
			g.Init = ie
			g.TypeExpr = strings.TrimSpace(g.TypeExpr[:i])
		}
		c.Ghosts = append(c.Ghosts, g)
	case "use":
		cl, err := mk("")
		if err != nil {
			return err
		}
		c.Uses = append(c.Uses, cl)
	case "use_at_return":
		cl, err := mk("")
		if err != nil {
			return err
		}
		c.UsesAtRet = append(c.UsesAtRet, cl)
	case "assert":
		cl, err := mk("")
		if err != nil {
			return err
		}
		c.Asserts = append(c.Asserts, cl)
	case "cases":
		fs := strings.Fields(rest)
		if len(fs) < 3 || (len(fs) > 3 && fs[3] != "quick") {
			return fmt.Errorf("cases <param> <lo> <hi> [quick v...]")
		}
		lo, err1 := strconv.Atoi(fs[1])
		hi, err2 := strconv.Atoi(fs[2])
		if err1 != nil || err2 != nil {
			return fmt.Errorf("cases: bad bounds")
		}
		cs := caseSplit{Param: fs[0], Lo: lo, Hi: hi}
		for _, q := range fs[min(4, len(fs)):] {
			v, err := strconv.Atoi(q)
			if err != nil {
				return fmt.Errorf("cases: bad quick value")
			}
			cs.Quick = append(cs.Quick, v)
		}
		c.Cases = append(c.Cases, cs)
	case "let_at_call":
		// let_at_call pkg.Recv.Fn#k <expr over `ret` (the call's result), the arguments and the caller's locals>:
		// a ghost definition - fresh uninterpreted specification functions are given the meaning "what this call
		// returned in this iteration".  Assumed, not checked: sound as long as the defined symbols occur nowhere else
		// with another meaning and their index is different in every iteration (listed in the evidence when used).
		fs := strings.Fields(rest)
		if len(fs) < 2 || !strings.Contains(fs[0], "#") {
			return fmt.Errorf("let_at_call <callee>#<site> <expr>")
		}
		src := strings.TrimSpace(rest[len(fs[0]):])
		ex, err := parseExprSrc(src)
		if err != nil {
			return err
		}
		if c.LetAtCall == nil {
			c.LetAtCall = map[string][]Clause{}
		}
		c.LetAtCall[fs[0]] = append(c.LetAtCall[fs[0]], Clause{Expr: ex, Src: src, Line: no})
	case "at_call":
		// at_call pkg.Recv.Fn#k <expr over the callee's parameter names and the caller's locals>
		fs := strings.Fields(rest)
		if len(fs) < 2 || !strings.Contains(fs[0], "#") {
			return fmt.Errorf("at_call <callee>#<site> <expr>")
		}
		src := strings.TrimSpace(rest[len(fs[0]):])
		ex, err := parseExprSrc(src)
		if err != nil {
			return err
		}
		if c.AtCall == nil {
			c.AtCall = map[string][]Clause{}
		}
		c.AtCall[fs[0]] = append(c.AtCall[fs[0]], Clause{Expr: ex, Src: src, Line: no})
	case "calls":
		c.Calls = append(c.Calls, strings.Fields(rest)...)
	case "logical":
		fs := strings.Fields(rest)
		if len(fs) != 2 || (fs[1] != "string" && fs[1] != "int") {
			return fmt.Errorf("logical <name> string|int")
		}
		c.Logicals = append(c.Logicals, logicalDecl{fs[0], fs[1]})
	case "refusal_implies":
		cl, err := mk("")
		if err != nil {
			return err
		}
		c.RefusalImp = append(c.RefusalImp, cl)
	case "hint":
		c.HintNames = append(c.HintNames, strings.Fields(rest)...)
	case "loop":
		fs := strings.Fields(rest)
		if len(fs) >= 3 && fs[1] == "calls" {
			n, err := strconv.Atoi(fs[0])
			if err != nil {
				return err
			}
			if c.LoopCalls == nil {
				c.LoopCalls = map[int][]string{}
			}
			c.LoopCalls[n] = append(c.LoopCalls[n], fs[2:]...)
			return nil
		}
		if len(fs) >= 3 && fs[1] == "use" {
			n, err := strconv.Atoi(fs[0])
			if err != nil {
				return err
			}
			src := strings.TrimSpace(rest[strings.Index(rest, "use")+3:])
			e, err := parseExprSrc(src)
			if err != nil {
				return err
			}
			if c.LoopUse == nil {
				c.LoopUse = map[int][]Clause{}
			}
			c.LoopUse[n] = append(c.LoopUse[n], Clause{Expr: e, Src: src, Line: no})
			return nil
		}
		if len(fs) < 3 || fs[1] != "invariant" {
			return fmt.Errorf("bad loop clause %q", t)
		}
		n, err := strconv.Atoi(fs[0])
		if err != nil {
			return err
		}
		src := strings.TrimSpace(rest[strings.Index(rest, "invariant")+len("invariant"):])
		e, err := parseExprSrc(src)
		if err != nil {
			return err
		}
		c.LoopInv[n] = append(c.LoopInv[n], Clause{Expr: e, Src: src, Line: no})
	default:
		return fmt.Errorf("unknown clause keyword %q", kw)
	}
	return nil
}

func (c *Contract) HasProp(p string) bool {
	for _, x := range c.Props {
		if x == p {
			return true
		}
	}
	return false
}

func sortedKeys[V any](m map[string]V) []string {
	var ks []string
	for k := range m {
		ks = append(ks, k)
	}
	sort.Strings(ks)
	return ks
}

// parseRecDef parses `name(p kind, ...) kind = body`.
func parseRecDef(s string) (*RecDef, error) {
	lp := strings.Index(s, "(")
	rp := strings.Index(s, ")")
	if lp < 0 || rp < lp {
		return nil, fmt.Errorf("bad recdef %q", s)
	}
	eq := rp + strings.Index(s[rp:], "=")
	rd := &RecDef{Name: strings.TrimSpace(s[:lp]), ResKind: strings.TrimSpace(s[rp+1 : eq])}
	for _, p := range strings.Split(s[lp+1:rp], ",") {
		fs := strings.Fields(p)
		if len(fs) != 2 {
			return nil, fmt.Errorf("recdef parameter %q needs a kind", p)
		}
		rd.Params = append(rd.Params, fs[0])
		rd.Kinds = append(rd.Kinds, fs[1])
	}
	body := strings.TrimSpace(s[eq+1:])
	e, err := parseExprSrc(body)
	if err != nil {
		return nil, err
	}
	rd.Body = e
	rd.Src = body
	return rd, nil
}

// mentionsLogical: the expression refers to one of the contract's logical variables.
func (c *Contract) mentionsLogical(x ast.Expr) bool {
	if len(c.Logicals) == 0 || x == nil {
		return false
	}
	found := false
	ast.Inspect(x, func(n ast.Node) bool {
		if id, ok := n.(*ast.Ident); ok {
			for _, lg := range c.Logicals {
				if lg.Name == id.Name {
					found = true
				}
			}
		}
		return !found
	})
	return found
}
