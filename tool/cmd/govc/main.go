package main

import (
	"flag"
	"fmt"
	"go/token"
	"go/types"
	"os"
	"path/filepath"
	"sort"
	"strings"
	"time"

	"golang.org/x/tools/go/packages"
	"golang.org/x/tools/go/ssa"
	"golang.org/x/tools/go/ssa/ssautil"
)

var repoModuleDir = "/repo/gnark-plonky2-verifier"

func init() {
	// GOVC_REPO lets the developer point govc at a scratch worktree; the registered checks never set it.
	if r := os.Getenv("GOVC_REPO"); r != "" {
		repoModuleDir = r + "/gnark-plonky2-verifier"
	}
}

type Loaded struct {
	fset  *token.FileSet
	pkgs  []*packages.Package
	prog  *ssa.Program
	spkgs map[string]*ssa.Package
	cs    *ContractSet
	bound map[*ssa.Function]*Contract
	byKey map[string]*ssa.Function
	// interface method contracts: "pkg.Iface.Method" -> contract and a carrier implementation (its parameter
	// names, signature and package stand for those of the interface method)
	iface map[string]*ifaceContract
}

type ifaceContract struct {
	ct      *Contract
	carrier *ssa.Function
}

func load(patterns ...string) *Loaded {
	os.Setenv("GOFLAGS", "-mod=mod")
	os.Setenv("GOPROXY", "off")
	os.Setenv("GOSUMDB", "off")
	os.Setenv("GOTOOLCHAIN", "local")
	fset := token.NewFileSet()
	cfg := &packages.Config{Mode: packages.LoadAllSyntax, Dir: repoModuleDir, BuildFlags: []string{"-tags=verif"}, Fset: fset}
	if len(patterns) == 0 {
		patterns = []string{"./goldilocks", "./poseidon", "./challenger", "./fri", "./plonk/...", "./verifier", "./types", "./variables"}
	}
	pkgs, err := packages.Load(cfg, patterns...)
	if err != nil {
		fatalf("govc: load: %v", err)
	}
	nerr := 0
	packages.Visit(pkgs, nil, func(p *packages.Package) {
		for _, e := range p.Errors {
			if strings.HasPrefix(p.PkgPath, modulePrefix) {
				fmt.Fprintf(os.Stderr, "govc: %s: %v\n", p.PkgPath, e)
				nerr++
			}
		}
	})
	if nerr > 0 {
		fatalf("govc: the module does not type-check (%d errors)", nerr)
	}
	prog, _ := ssautil.AllPackages(pkgs, ssa.GlobalDebug|ssa.InstantiateGenerics)
	prog.Build()
	l := &Loaded{fset: fset, pkgs: pkgs, prog: prog, spkgs: map[string]*ssa.Package{}, cs: &ContractSet{Macros: map[string]*Macro{}}, bound: map[*ssa.Function]*Contract{}, byKey: map[string]*ssa.Function{}}
	for _, p := range pkgs {
		sp := prog.Package(p.Types)
		if sp != nil {
			l.spkgs[p.PkgPath] = sp
		}
		for i, f := range p.Syntax {
			fn := p.CompiledGoFiles[i]
			if !strings.HasSuffix(fn, "_verif.go") {
				continue
			}
			if err := ParseContractComments(p.PkgPath, fn, fset, f, l.cs); err != nil {
				fatalf("govc: %v", err)
			}
		}
	}
	return l
}

// bind attaches contracts to SSA functions.
func (l *Loaded) bind() []string {
	var unbound []string
	for _, c := range l.cs.Contracts {
		sp := l.spkgs[c.Pkg]
		if sp == nil {
			unbound = append(unbound, c.Key())
			continue
		}
		var fn *ssa.Function
		if c.Flags["interface"] {
			// contract of an interface method: applied at dynamic calls whose receiver type is not known
			var carrier *ssa.Function
			for fl := range c.Flags {
				if strings.HasPrefix(fl, "carrier:") {
					if t := sp.Type(strings.TrimPrefix(fl, "carrier:")); t != nil {
						carrier = l.prog.LookupMethod(types.NewPointer(t.Type()), sp.Pkg, c.Name)
					}
				}
			}
			if carrier == nil {
				unbound = append(unbound, sp.Pkg.Name()+"."+c.Key()+" (interface contract without carrier)")
				continue
			}
			if l.iface == nil {
				l.iface = map[string]*ifaceContract{}
			}
			l.iface[sp.Pkg.Name()+"."+c.Recv+"."+c.Name] = &ifaceContract{ct: c, carrier: carrier}
			continue
		}
		if c.Recv == "" {
			fn = sp.Func(c.Name)
		} else if t := sp.Type(c.Recv); t != nil {
			fn = l.prog.LookupMethod(types.NewPointer(t.Type()), sp.Pkg, c.Name)
			if fn == nil {
				fn = l.prog.LookupMethod(t.Type(), sp.Pkg, c.Name)
			}
			// LookupMethod on *T may return a wrapper for value-receiver methods
			if fn != nil && fn.Synthetic != "" {
				if f2 := l.prog.LookupMethod(t.Type(), sp.Pkg, c.Name); f2 != nil && f2.Synthetic == "" {
					fn = f2
				}
			}
		}
		if fn == nil || len(fn.Blocks) == 0 {
			unbound = append(unbound, sp.Pkg.Name()+"."+c.Key())
			continue
		}
		c.Fn = fn
		if prev := l.bound[fn]; prev != nil {
			mergeContracts(prev, c)
		} else {
			l.bound[fn] = c
		}
		l.byKey[funcKey(fn)] = fn
	}
	return unbound
}

func newEngine(l *Loaded) *Engine {
	e := newEngine0(l)
	e.l = l
	e.ifaceUsed = map[string]bool{}
	e.pkgInit = map[*ssa.Package]bool{}
	e.globalsRead = map[string]bool{}
	e.opaqueUsed = map[string]bool{}
	e.lemmasUsed = map[string]bool{}
	e.seqArrays = map[string][]*Term{}
	e.globalWriters = scanGlobalWriters(l)
	return e
}

// scanGlobalWriters finds, for every package-level variable of the module, the functions
// other than package initialisers that store to it (directly or through an element address).
func scanGlobalWriters(l *Loaded) map[string][]string {
	out := map[string][]string{}
	for _, fn := range allModuleFunctions(l) {
		if fn.Synthetic != "" || strings.HasPrefix(fn.Name(), "init#") || fn.Name() == "init" {
			continue
		}
		for _, b := range fn.Blocks {
			for _, in := range b.Instrs {
				var addr ssa.Value
				switch x := in.(type) {
				case *ssa.Store:
					addr = x.Addr
				case *ssa.MapUpdate:
					addr = x.Map
				default:
					continue
				}
				if g := rootGlobal(addr); g != nil && g.Pkg != nil {
					k := g.Pkg.Pkg.Name() + "." + g.Name()
					if !contains(out[k], funcKey(fn)) {
						out[k] = append(out[k], funcKey(fn))
					}
				}
			}
		}
	}
	return out
}

func rootGlobal(addr ssa.Value) *ssa.Global {
	for depth := 0; depth < 10 && addr != nil; depth++ {
		switch x := addr.(type) {
		case *ssa.Global:
			return x
		case *ssa.FieldAddr:
			addr = x.X
		case *ssa.IndexAddr:
			addr = x.X
		case *ssa.UnOp:
			addr = x.X
		case *ssa.Slice:
			addr = x.X
		default:
			return nil
		}
	}
	return nil
}

func allModuleFunctions(l *Loaded) []*ssa.Function {
	seen := map[*ssa.Function]bool{}
	var out []*ssa.Function
	var add func(f *ssa.Function)
	add = func(f *ssa.Function) {
		if f == nil || seen[f] {
			return
		}
		seen[f] = true
		out = append(out, f)
		for _, a := range f.AnonFuncs {
			add(a)
		}
	}
	for _, sp := range l.spkgs {
		if !strings.HasPrefix(sp.Pkg.Path(), modulePrefix) {
			continue
		}
		for _, m := range sp.Members {
			switch x := m.(type) {
			case *ssa.Function:
				add(x)
			case *ssa.Type:
				for _, t := range []types.Type{x.Type(), types.NewPointer(x.Type())} {
					ms := l.prog.MethodSets.MethodSet(t)
					for i := 0; i < ms.Len(); i++ {
						add(l.prog.MethodValue(ms.At(i)))
					}
				}
			}
		}
	}
	sort.Slice(out, func(i, j int) bool { return out[i].String() < out[j].String() })
	return out
}

func newEngine0(l *Loaded) *Engine {
	return &Engine{prog: l.prog, cs: l.cs, bound: l.bound, notes: map[string]bool{}, counters: map[string]int{}, fset: l.fset,
		globals: map[*ssa.Global]*Object{}, globalVal: map[*Object]interface{}{}, maxSteps: 3000000, inlined: map[string]bool{}, funcsUsed: map[string]bool{}, frozen: map[string]bool{}}
}

func (e *Engine) evalGlobalInit(g *ssa.Global) (Value, bool) { return nil, false }

func modesFor(c *Contract) []Mode {
	if c.Kind == "circuit" {
		var ms []Mode
		if !c.Flags["complete-only"] {
			ms = append(ms, SOUND)
		}
		if !c.Flags["sound-only"] {
			ms = append(ms, COMPLETE)
		}
		return ms
	}
	return []Mode{PLAIN}
}

func main() {
	if len(os.Args) < 2 {
		fatalf("usage: govc check <property> [--tier quick|thorough] | govc dump <func> | govc list")
	}
	switch os.Args[1] {
	case "check":
		os.Exit(cmdCheck(os.Args[2:]))
	case "dump":
		cmdDump(os.Args[2:])
	case "replay":
		if len(os.Args) < 3 {
			fatalf("usage: govc replay <replay file>")
		}
		os.Exit(cmdReplay(os.Args[2]))
	case "locals":
		cmdLocals(len(os.Args) > 2 && os.Args[2] == "-w")
	case "list":
		l := load()
		ub := l.bind()
		for _, c := range l.cs.Contracts {
			fmt.Printf("%-50s %-8s %v\n", c.Pkg[strings.LastIndex(c.Pkg, "/")+1:]+"."+c.Key(), c.Kind, c.Props)
		}
		fmt.Println("unbound:", ub)
	default:
		fatalf("unknown command %s", os.Args[1])
	}
}

func cmdDump(args []string) {
	fs := flag.NewFlagSet("dump", flag.ExitOnError)
	timeout := fs.Int("timeout", 20, "solver timeout (s)")
	keep := fs.String("keep", "", "directory to keep SMT files")
	fs.Parse(args)
	l := load()
	if ub := l.bind(); len(ub) > 0 {
		fmt.Println("unbound contracts:", ub)
	}
	e := newEngine(l)
	want := fs.Args()
	for _, key := range sortedKeys(l.byKey) {
		fn := l.byKey[key]
		match := len(want) == 0
		for _, w := range want {
			if strings.Contains(key, w) {
				match = true
			}
		}
		if !match {
			continue
		}
		ct := l.bound[fn]
		if ct.Flags["trusted"] {
			e.note("contract of " + key + " is trusted (body not verified)")
			continue
		}
		for _, m := range modesFor(ct) {
			if err := e.verifyFunction(fn, ct, m); err != nil {
				fmt.Println("ERROR:", err)
			}
		}
	}
	for _, lm := range l.cs.Lemmas {
		if e.lemmasUsed[lm.Name] || len(want) == 0 {
			if err := e.proveLemma(lm); err != nil {
				fmt.Println("ERROR:", err)
			}
		}
	}
	dir := *keep
	if dir == "" {
		d, _ := os.MkdirTemp("", "govc")
		dir = d
		defer os.RemoveAll(d)
	} else {
		os.MkdirAll(dir, 0o755)
	}
	start := time.Now()
	dischargeAll(e.obligs, dir, *timeout, 8)
	for _, ob := range e.obligs {
		status := "ok"
		if ob.Result != ob.Expect {
			status = "FAIL"
		}
		fmt.Printf("%-5s %-90s %-7s %-7s %5.2fs %s  [%s]\n", status, ob.Name, ob.Result, ob.Backend, ob.Time, filepath.Base(ob.SMT), ob.Src)
		if status == "FAIL" && ob.Model != nil {
			var ks []string
			for k := range ob.Model {
				ks = append(ks, k)
			}
			sort.Strings(ks)
			for _, k := range ks {
				fmt.Printf("        %s = %s\n", k, ob.Model[k])
			}
		}
	}
	fmt.Printf("%d obligations, %.1fs\n", len(e.obligs), time.Since(start).Seconds())
	for _, n := range sortedKeys(e.notes) {
		fmt.Println("note:", n)
	}
}


// mergeContracts: several contract blocks for one function (one per property) are merged; the
// postconditions of each block stay attached to that block's properties.
func mergeContracts(dst, src *Contract) {
	tag := func(cls []Clause, props []string, own bool) []Clause {
		for i := range cls {
			if cls[i].Props == nil {
				cls[i].Props = props
				cls[i].OwnOnly = own
			}
		}
		return cls
	}
	// `flag own-props-only` on a block: its postconditions are exported to callers only in checks of its own properties
	dst.Ensures = tag(dst.Ensures, dst.Props, dst.Flags["own-props-only"])
	dst.Asserts = tag(dst.Asserts, dst.Props, false)
	dst.Ensures = append(dst.Ensures, tag(src.Ensures, src.Props, src.Flags["own-props-only"])...)
	dst.Asserts = append(dst.Asserts, tag(src.Asserts, src.Props, false)...)
	delete(src.Flags, "own-props-only")
	delete(dst.Flags, "own-props-only")
	if len(dst.Locals) == 0 {
		dst.Locals = src.Locals
	}
	dst.Requires = append(dst.Requires, src.Requires...)
	dst.Honest = append(dst.Honest, src.Honest...)
	dst.Modifies = append(dst.Modifies, src.Modifies...)
	dst.Uses = append(dst.Uses, src.Uses...)
	dst.UsesAtRet = append(dst.UsesAtRet, src.UsesAtRet...)
	dst.Ghosts = append(dst.Ghosts, src.Ghosts...)
	dst.Calls = append(dst.Calls, src.Calls...)
	for k, v := range src.LetAtCall {
		if dst.LetAtCall == nil {
			dst.LetAtCall = map[string][]Clause{}
		}
		dst.LetAtCall[k] = append(dst.LetAtCall[k], v...)
	}
	for k, v := range src.AtCall {
		if dst.AtCall == nil {
			dst.AtCall = map[string][]Clause{}
		}
		dst.AtCall[k] = append(dst.AtCall[k], v...)
	}
	for k, v := range src.LoopCalls {
		if dst.LoopCalls == nil {
			dst.LoopCalls = map[int][]string{}
		}
		dst.LoopCalls[k] = append(dst.LoopCalls[k], v...)
	}
	for k, v := range src.LoopUse {
		if dst.LoopUse == nil {
			dst.LoopUse = map[int][]Clause{}
		}
		dst.LoopUse[k] = append(dst.LoopUse[k], v...)
	}
	for k, v := range src.LoopInv {
		dst.LoopInv[k] = append(dst.LoopInv[k], v...)
	}
	for k, v := range src.Flags {
		if v {
			dst.Flags[k] = true
		}
	}
	for _, p := range src.Props {
		if !contains(dst.Props, p) {
			dst.Props = append(dst.Props, p)
		}
	}
}

// cmdLocals prints (or, with -w, writes into the contract files) the `locals` clause of every contract block: the
// local variables of the function in declaration order, the reference for reading contracts after a renaming.
func cmdLocals(write bool) {
	l := load()
	l.bind()
	byFile := map[string][]*Contract{}
	for _, c := range l.cs.Contracts {
		if c.Fn != nil {
			byFile[c.File] = append(byFile[c.File], c)
		}
	}
	for file, cs := range byFile {
		data, err := os.ReadFile(file)
		if err != nil {
			fatalf("%v", err)
		}
		lines := strings.Split(string(data), "\n")
		sort.Slice(cs, func(i, j int) bool { return cs[i].Line > cs[j].Line }) // bottom-up: insertions keep earlier line numbers valid
		changed := false
		for _, c := range cs {
			names := declaredLocals(c.Fn)
			hdr := c.Line - 1
			if hdr < 0 || hdr >= len(lines) || !strings.HasPrefix(strings.TrimSpace(strings.TrimPrefix(lines[hdr], "//@")), "func ") {
				fmt.Fprintf(os.Stderr, "govc locals: %s:%d: header not on one line, skipped\n", file, c.Line)
				continue
			}
			has := hdr+1 < len(lines) && strings.HasPrefix(strings.TrimSpace(strings.TrimPrefix(lines[hdr+1], "//@")), "locals")
			want := localsLine(names)
			switch {
			case len(names) == 0 && has:
				lines = append(lines[:hdr+1], lines[hdr+2:]...)
				changed = true
			case len(names) == 0:
			case has && lines[hdr+1] != want:
				lines[hdr+1] = want
				changed = true
			case !has:
				lines = append(lines[:hdr+1], append([]string{want}, lines[hdr+1:]...)...)
				changed = true
			}
			if !write {
				fmt.Printf("%s: %s\n", funcKey(c.Fn), strings.Join(names, " "))
			}
		}
		if write && changed {
			if err := os.WriteFile(file, []byte(strings.Join(lines, "\n")), 0o644); err != nil {
				fatalf("%v", err)
			}
			fmt.Println("updated", file)
		}
	}
}
