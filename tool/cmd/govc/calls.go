package main

import (
	"fmt"
	"go/ast"
	"go/token"
	"go/types"
	"os"
	"reflect"
	"sort"
	"strings"
	"time"

	"golang.org/x/tools/go/ssa"
)

const modulePrefix = "github.com/wormhole-foundation/example-near-light-client"

func inModule(fn *ssa.Function) bool {
	return fn != nil && fn.Pkg != nil && strings.HasPrefix(fn.Pkg.Pkg.Path(), modulePrefix)
}

// callSiteName: stable ordinal of a call instruction among the calls to the same callee
// inside its enclosing function.
func (e *Engine) callSiteName(f *Frame, in ssa.Instruction, calleeKey string) string {
	k := 0
	found := false
	for _, b := range f.fn.Blocks {
		for _, i2 := range b.Instrs {
			c, ok := i2.(ssa.CallInstruction)
			if !ok {
				continue
			}
			if i2 == in {
				found = true
				break
			}
			if calleeKeyOf(c.Common()) == calleeKey {
				k++
			}
		}
		if found {
			break
		}
	}
	name := fmt.Sprintf("%s#%d", calleeKey, k)
	if f.fn != e.curFn {
		name = funcKey(f.fn) + ":" + name
	}
	return name
}

func calleeKeyOf(c *ssa.CallCommon) string {
	if c.IsInvoke() {
		return "invoke." + c.Method.Name()
	}
	if fn := c.StaticCallee(); fn != nil {
		if inModule(fn) {
			return funcKey(fn)
		}
		return fn.String()
	}
	if b, ok := c.Value.(*ssa.Builtin); ok {
		return "builtin." + b.Name()
	}
	return "dynamic"
}

func (e *Engine) execCall(s *State, f *Frame, x *ssa.Call, work *[]*State, probe *probeRec) bool {
	e.curWork = work
	c := x.Common()
	var args []Value
	for _, a := range c.Args {
		args = append(args, e.val(s, f, a))
	}
	if c.IsInvoke() {
		recv := e.val(s, f, c.Value)
		res, pushed := e.invoke(s, f, x, recv, c.Method, args, probe)
		if pushed {
			return true
		}
		f.env[x] = res
		f.ip++
		return true
	}
	switch callee := c.Value.(type) {
	case *ssa.Builtin:
		f.env[x] = e.builtin(s, f, x, callee.Name(), args, probe)
		f.ip++
		return true
	case *ssa.Function:
		return e.callFunction(s, f, x, callee, args, nil, probe)
	case *ssa.MakeClosure:
		fv := e.val(s, f, callee).(VFunc)
		return e.callFunction(s, f, x, fv.Fn, args, fv.Free, probe)
	default:
		fv, ok := e.val(s, f, c.Value).(VFunc)
		if ok && fv.Fn != nil {
			return e.callFunction(s, f, x, fv.Fn, args, fv.Free, probe)
		}
		panic(execError{fmt.Sprintf("dynamic call through %T at %s", e.val(s, f, c.Value), e.posOf(x.Pos()))})
	}
}

func (e *Engine) callFunction(s *State, f *Frame, x *ssa.Call, callee *ssa.Function, args []Value, free []Value, probe *probeRec) bool {
	name := callee.String()
	if inModule(callee) {
		s.callLog = append(s.callLog, funcKey(callee))
	}
	e.alt = nil
	if res, ok := e.externalModel(s, f, x, name, callee, args, probe); ok {
		if alt := e.alt; alt != nil {
			e.alt = nil
			switch {
			case alt.cond.IsFalse():
				res = alt.val
			case alt.cond.IsTrue():
				for _, fc := range alt.facts {
					s.assume(fc)
				}
			default:
				if e.curWork == nil {
					panic(execError{"two-outcome model outside a path"})
				}
				// prune an outcome the path condition excludes (string goals are decided in milliseconds)
				if e.pruneCalls < 20000 {
					e.pruneCalls++
					fm, fa := e.quickSides(s.pc, alt.cond)
					if !fm {
						s.assume(Not(alt.cond))
						res = alt.val
						break
					}
					if !fa {
						s.assume(alt.cond)
						for _, fc := range alt.facts {
							s.assume(fc)
						}
						break
					}
				}
				other := s.clone()
				of := other.top()
				of.env[x] = alt.val
				of.ip++
				other.assume(Not(alt.cond))
				*e.curWork = append(*e.curWork, other)
				s.assume(alt.cond)
				for _, fc := range alt.facts {
					s.assume(fc)
				}
			}
		}
		f.env[x] = res
		f.ip++
		return true
	}
	if inModule(callee) {
		if ct := e.bound[callee]; ct != nil && callee != e.curFn && !ct.Flags["inline-at-calls"] {
			r := e.applyContract(s, f, x, callee, ct, args, probe)
			f.env[x] = r
			// results of contracted calls are addressable from ghost initialisers: callresult("pkg.Recv.Func", n)
			if f.callResults == nil {
				f.callResults = map[string]Value{}
			}
			k := 0
			for {
				if _, ok := f.callResults[fmt.Sprintf("%s#%d", funcKey(callee), k)]; !ok {
					break
				}
				k++
			}
			f.callResults[fmt.Sprintf("%s#%d", funcKey(callee), k)] = r
			for ai, av := range args {
				f.callResults[fmt.Sprintf("%s#%d.arg%d", funcKey(callee), k, ai)] = av
			}
			for gname, gv := range e.lastGhosts {
				f.callResults[fmt.Sprintf("%s#%d.%s", funcKey(callee), k, gname)] = gv
			}
			// ghost definitions attached to this static call site
			if f.contract != nil && f.contract.LetAtCall != nil {
				site := e.callSiteName(f, x, funcKey(callee))
				if cls := f.contract.LetAtCall[site]; len(cls) > 0 {
					lc := &evalCtx{e: e, s: s, env: copyEnv(f.params), names: f.names, oldHeap: f.entryHeap, oldEnv: f.params, pkg: f.fn.Pkg.Pkg, frame: f}
					lc.env["ret"] = r
					e.bindParams(callee, args, "arg_", lc.env)
					for gname, gv := range e.lastGhosts {
						lc.env["ghost_"+gname] = gv
					}
					for _, cl := range cls {
						s.assume(lc.evalBool(cl.Expr))
					}
					e.note("ghost definition at call site " + site + " of " + funcKey(f.fn) + " (let_at_call): uninterpreted specification functions are given the value of this call's result; assumed")
				}
			}
			f.ip++
			return true
		}
		if callee == e.curFn && len(s.stack) >= 1 && e.bound[callee] != nil {
			// recursion: use own contract
			f.env[x] = e.applyContract(s, f, x, callee, e.bound[callee], args, probe)
			f.ip++
			return true
		}
		if len(callee.Blocks) == 0 {
			panic(execError{"module function without body: " + name})
		}
		if len(s.stack) > 40 {
			panic(execError{"inlining depth exceeded at " + name})
		}
		e.inlined[funcKey(callee)] = true
		nf := e.newFrame(callee, args, free)
		nf.call = x
		if ct := e.bound[callee]; ct != nil && ct.Flags["inline-at-calls"] {
			nf.contract = ct // inlined, but its loops are cut at the invariants of its own contract
		}
		s.stack = append(s.stack, nf)
		return true
	}
	// unmodelled external function: havoc the result, assume no side effects
	e.note("unmodelled external call " + name + ": result unconstrained, no side effects assumed")
	a := &absCtx{e: e, s: s}
	var res Value
	sig := callee.Signature
	switch sig.Results().Len() {
	case 0:
		res = VTuple{}
	case 1:
		res = a.abstractValue(sig.Results().At(0).Type(), uniqueName("ext."+callee.Name()), nil)
	default:
		var el []Value
		for i := 0; i < sig.Results().Len(); i++ {
			el = append(el, a.abstractValue(sig.Results().At(i).Type(), uniqueName("ext."+callee.Name()), nil))
		}
		res = VTuple{el}
	}
	for _, fc := range a.facts {
		s.assume(fc)
	}
	f.env[x] = res
	f.ip++
	return true
}

func (e *Engine) newFrame(fn *ssa.Function, args []Value, free []Value) *Frame {
	nf := &Frame{fn: fn, env: map[ssa.Value]Value{}, names: map[string]nameRef{}, cut: map[*ssa.BasicBlock]bool{}, visits: map[*ssa.BasicBlock]int{}, params: map[string]Value{}}
	if len(fn.Blocks) == 0 {
		panic(execError{"no body for " + fn.String()})
	}
	nf.blk = fn.Blocks[0]
	nf.loops = getLoops(fn)
	for i, p := range fn.Params {
		if i < len(args) {
			nf.env[p] = args[i]
		}
	}
	e.bindParams(fn, args, "", nf.params)
	for i, fv := range fn.FreeVars {
		if i < len(free) {
			nf.env[fv] = free[i]
		}
	}
	return nf
}

// ---------------------------------------------------------------------------------
// contracts at call sites

func (e *Engine) clauseApplies(cl Clause) bool {
	switch cl.Mode {
	case "":
		return true
	case "sound":
		return e.mode == SOUND
	case "complete":
		return e.mode == COMPLETE
	}
	return false
}

func (e *Engine) resultNames(ct *Contract, n int) []string {
	names := make([]string, n)
	for i := 0; i < n; i++ {
		if i < len(ct.ResultNames) && ct.ResultNames[i] != "" {
			names[i] = ct.ResultNames[i]
		} else if n == 1 {
			names[i] = "res"
		} else {
			names[i] = fmt.Sprintf("res%d", i)
		}
	}
	return names
}

func (e *Engine) applyContract(s *State, f *Frame, x ssa.Instruction, callee *ssa.Function, ct *Contract, args []Value, probe *probeRec) Value {
	key := funcKey(callee)
	e.funcsUsed[key] = true
	env := map[string]Value{}
	e.bindParams(callee, args, "", env)
	site := e.callSiteName(f, x, key)
	c := &evalCtx{e: e, s: s, env: env, pkg: callee.Pkg.Pkg}
	// at_call clauses of the function under verification for this static site: the arguments are what the contract says
	if f.contract != nil && probe == nil && f.contract.AtCall != nil {
		if cls := f.contract.AtCall[site]; len(cls) > 0 {
			if e.atCallHit == nil {
				e.atCallHit = map[string]bool{}
			}
			e.atCallHit[funcKey(f.fn)+"|"+site] = true
			ac := &evalCtx{e: e, s: s, env: copyEnv(f.params), names: f.names, oldHeap: f.entryHeap, oldEnv: f.params, pkg: f.fn.Pkg.Pkg, frame: f}
			e.bindParams(callee, args, "arg_", ac.env)
			for j, cl := range cls {
				e.emit(s, "at-call", fmt.Sprintf("%s.%d", site, j), ac.evalBool(cl.Expr), x.Pos(), "at_call "+site+" "+cl.Src)
			}
		}
	}
	acceptance := e.mode == COMPLETE && e.curC != nil && e.curC.Flags["acceptance-asserts"] && len(s.stack) == 1 && strings.HasPrefix(callee.Name(), "AssertIsEqual")
	if acceptance {
		// the function's own equality assertions are its acceptance condition: in COMPLETE mode they are the
		// premise ("the identity holds"), everything else must then be satisfied
		for _, cl := range ct.Honest {
			s.assume(c.evalBool(cl.Expr))
		}
		e.note("acceptance-asserts: in COMPLETE mode the function's own AssertIsEqual* calls are taken as the acceptance premise")
	}
	if probe == nil && !acceptance {
		for k, cl := range ct.Requires {
			if !e.clauseApplies(cl) || ct.mentionsLogical(cl.Expr) {
				continue // clauses over logical variables select a specification case; they bind no caller
			}
			t := c.evalBool(cl.Expr)
			e.emit(s, "pre", fmt.Sprintf("%s.req%d", site, k), t, x.Pos(), cl.Src)
		}
		if e.mode == COMPLETE && ct.Kind == "circuit" {
			for k, cl := range ct.Honest {
				t := c.evalBool(cl.Expr)
				if e.curC != nil && e.curC.Flags["honest-callees-assumed"] && len(s.stack) == 1 {
					// composition level: "the proof is valid" is taken to mean that the acceptance premises of the
					// gadgets called here hold; what remains to prove is that the glue code never fails under them
					s.assume(t)
					e.note("honest-callees-assumed: in COMPLETE mode the honest premises of callees of " + funcKey(e.curFn) + " are the definition of a valid input (assumed), e.g. " + key)
					continue
				}
				e.emit(s, "honest", fmt.Sprintf("%s.hon%d", site, k), t, x.Pos(), cl.Src)
			}
		}
	} else if !acceptance {
		for _, cl := range ct.Requires {
			if e.clauseApplies(cl) && !ct.mentionsLogical(cl.Expr) {
				s.assume(c.evalBool(cl.Expr))
			}
		}
	}
	// snapshot for old()
	oldHeap := make(map[*Object]interface{}, len(s.heap))
	for k, v := range s.heap {
		oldHeap[k] = v
	}
	// frame: havoc modifies
	a := &absCtx{e: e, s: s}
	for _, cl := range ct.Modifies {
		p := c.evalAddr(cl.Expr)
		e.recordWrite(s, probe, p)
		t := e.typeAtPath(p)
		if t == nil {
			panic(execError{"modifies: cannot type " + cl.Src})
		}
		nv := a.abstractValue(t, uniqueName("mod."+key), nil)
		e.store(s, p, nv, token.NoPos)
	}
	// results
	sig := callee.Signature
	n := sig.Results().Len()
	names := e.resultNames(ct, n)
	var resv []Value
	for i := 0; i < n; i++ {
		v := a.abstractValue(sig.Results().At(i).Type(), uniqueName("ret."+key), nil)
		resv = append(resv, v)
		env[names[i]] = v
	}
	// ghost results: values that exist in the callee (its local variables of that name at return)
	e.lastGhosts = map[string]Value{}
	for _, g := range ct.Ghosts {
		tv, err := types.Eval(e.fset, callee.Pkg.Pkg, callee.Pos(), g.TypeExpr)
		if err != nil {
			panic(execError{"ghost " + g.Name + ": cannot resolve type " + g.TypeExpr + ": " + err.Error()})
		}
		env[g.Name] = a.abstractValue(tv.Type, uniqueName("ghost."+key+"."+g.Name), nil)
		e.lastGhosts[g.Name] = env[g.Name]
	}
	for _, fc := range a.facts {
		s.assume(fc)
	}
	c.oldHeap = oldHeap
	c.oldEnv = nil
	before := len(s.pc)
	for _, cl := range ct.Ensures {
		if !e.clauseApplies(cl) || cl.Tag == "local" || ct.mentionsLogical(cl.Expr) {
			continue // `ensures[local]`: proved for the function itself, not exported to callers
		}
		if cl.OwnOnly && cl.Props != nil && e.curProp != "" && !contains(cl.Props, e.curProp) {
			continue // a postcondition stated for other properties only: not needed (and not assumed) in this check
		}
		s.assume(c.evalBool(cl.Expr))
	}
	// a postcondition that fixes a fresh result scalar to a constant (typically len(res) == 5) is propagated
	// into the result value, so that later loops and recursive specs over it run with a concrete bound
	sub := map[*Term]*Term{}
	for _, h := range s.pc[before:] {
		if h.Op == "=" {
			a, b := h.Args[0], h.Args[1]
			if a.IsConst() && b.Op == "var" && strings.HasPrefix(b.Name, "ret.") {
				sub[b] = a
			} else if b.IsConst() && a.Op == "var" && strings.HasPrefix(a.Name, "ret.") {
				sub[a] = b
			}
		}
	}
	if len(sub) > 0 {
		for i := range resv {
			resv[i] = substValue(resv[i], sub)
			if sl, ok := resv[i].(VSlice); ok && sl.Obj != nil {
				if sq, ok := s.heap[sl.Obj].(*Seq); ok {
					s.heap[sl.Obj] = substSeq(sq, sub)
				}
			}
		}
	}
	switch n {
	case 0:
		return VTuple{}
	case 1:
		return resv[0]
	}
	return VTuple{resv}
}

// evalAddr evaluates an lvalue expression (x.f, x.f.g) to a pointer.
func (c *evalCtx) evalAddr(x interface{}) VPtr { return c.evalAddrExpr(x) }

// ---------------------------------------------------------------------------------
// top-level: verify one function against its contract in one mode

// verifyFunction verifies fn against its contract; `cases p lo hi` clauses split the run
// into one run per value of an integer parameter (exhaustive over the stated range, which
// must be implied by... and is checked against the precondition by an extra obligation).
func (e *Engine) verifyFunction(fn *ssa.Function, ct *Contract, mode Mode) error {
	if len(ct.Cases) == 0 {
		return e.verifyFunctionCase(fn, ct, mode, nil)
	}
	// exhaustiveness of every split: requires => lo <= p < hi
	for _, cs := range ct.Cases {
		if err := e.verifyFunctionCase(fn, ct, mode, []caseSel{{cs: cs, exhaustive: true}}); err != nil {
			return err
		}
	}
	// the product of all splits
	var rec func(i int, sel []caseSel) error
	rec = func(i int, sel []caseSel) error {
		if i == len(ct.Cases) {
			return e.verifyFunctionCase(fn, ct, mode, append([]caseSel(nil), sel...))
		}
		cs := ct.Cases[i]
		var vals []int
		if len(cs.Quick) > 0 && e.tier != "thorough" {
			vals = cs.Quick
		} else {
			for v := cs.Lo; v < cs.Hi; v++ {
				vals = append(vals, v)
			}
		}
		if only := os.Getenv("GOVC_CASE_" + cs.Param); only != "" {
			// development aid: explore a single case value
			var ov int
			fmt.Sscan(only, &ov)
			vals = []int{ov}
		}
		for k, v := range vals {
			if err := rec(i+1, append(sel, caseSel{cs: cs, val: v, first: k == 0})); err != nil {
				return err
			}
		}
		return nil
	}
	return rec(0, nil)
}

type caseSel struct {
	cs         caseSplit
	val        int
	exhaustive bool
	first      bool
}

func (e *Engine) verifyFunctionCase(fn *ssa.Function, ct *Contract, mode Mode, sels []caseSel) (err error) {
	e.seqArrays = map[string][]*Term{}
	e.mode = mode
	e.curFn = fn
	e.curC = ct
	e.genBudget = 240
	if e.tier == "thorough" {
		e.genBudget = 900
	}
	e.deadline = time.Now().Add(time.Duration(e.genBudget) * time.Second)
	if !e.checkDeadline.IsZero() {
		// the whole check also has a generation budget: a change that multiplies the paths of every case must end in a
		// verdict, not in a check that runs for hours
		if time.Now().After(e.checkDeadline) {
			return fmt.Errorf("%s [%s]: generation budget of the check (%d s) exceeded before this function was reached", funcKey(fn), mode, e.checkBudget)
		}
		if e.checkDeadline.Before(e.deadline) {
			e.deadline = e.checkDeadline
		}
	}
	defer func() { e.deadline = time.Time{} }()
	defer func() {
		if r := recover(); r != nil {
			if ee, ok := r.(execError); ok {
				err = fmt.Errorf("%s [%s]: %s", funcKey(fn), mode, ee.msg)
				return
			}
			panic(r)
		}
	}()
	s := &State{heap: map[*Object]interface{}{}}
	a := &absCtx{e: e, s: s}
	var args []Value
	for _, p := range fn.Params {
		args = append(args, a.abstractValue(p.Type(), uniqueName(funcKey(fn)+"."+p.Name()), nil))
	}
	for _, fc := range a.facts {
		s.assume(fc)
	}
	logicals := map[string]Value{}
	for _, lg := range ct.Logicals {
		switch lg.Kind {
		case "string":
			logicals[lg.Name] = VStr{Var("logical."+lg.Name, SStr)}
		default:
			logicals[lg.Name] = VInt{Var("logical."+lg.Name, SInt)}
		}
	}
	exhaustive := len(sels) == 1 && sels[0].exhaustive
	var fieldCases []caseSel
	caseTag := ""
	allFirst := true
	for _, sel := range sels {
		if sel.exhaustive {
			continue
		}
		if !sel.first {
			allFirst = false
		}
		caseTag += fmt.Sprintf("[%s=%d]", sel.cs.Param, sel.val)
		if _, ok := logicals[sel.cs.Param]; ok {
			logicals[sel.cs.Param] = VInt{Int64C(int64(sel.val))}
			continue
		}
		if strings.Contains(sel.cs.Param, ".") {
			fieldCases = append(fieldCases, sel)
			continue
		}
		idx := e.paramIndex(fn, sel.cs.Param)
		if idx < 0 {
			return fmt.Errorf("%s: cases: no parameter %s", funcKey(fn), sel.cs.Param)
		}
		args[idx] = VInt{Int64C(int64(sel.val))}
	}
	// a split on a field of a parameter (cases g.bits 0 7): the field is set in the initial heap
	for _, sel := range fieldCases {
		ex, err := parseExprSrc(sel.cs.Param)
		if err != nil {
			return err
		}
		env := map[string]Value{}
		e.bindParams(fn, args, "", env)
		c := &evalCtx{e: e, s: s, env: env, pkg: fn.Pkg.Pkg}
		e.store(s, c.evalAddr(ex), VInt{Int64C(int64(sel.val))}, token.NoPos)
	}
	e.leafClass = nil
	if ct.Flags["root"] && fn.Signature.Recv() != nil {
		// gnark circuit root: classify the leaves of the circuit struct by their gnark tags
		rt := fn.Signature.Recv().Type()
		if pt, ok := rt.(*types.Pointer); ok {
			rt = pt.Elem()
		}
		if st, ok := rt.Underlying().(*types.Struct); ok {
			pname := fn.Params[0].Name()
			for i := 0; i < st.NumFields(); i++ {
				tag := reflect.StructTag(st.Tag(i)).Get("gnark")
				class := "secret"
				switch {
				case tag == "-":
					class = "constant"
				case strings.Contains(tag, "public"):
					class = "public"
				}
				e.leafClass = append(e.leafClass, leafClass{prefix: funcKey(fn) + "." + pname + "." + st.Field(i).Name(), class: class})
			}
		}
	}
	e.curArgs = args
	fr := e.newFrame(fn, args, nil)
	for k, v := range logicals {
		fr.params[k] = v
	}
	fr.contract = ct
	fr.entryHeap = make(map[*Object]interface{}, len(s.heap))
	for k, v := range s.heap {
		fr.entryHeap[k] = v
	}
	s.stack = []*Frame{fr}
	c := &evalCtx{e: e, s: s, env: copyEnv(fr.params), pkg: fn.Pkg.Pkg}
	// type invariants of parameters are part of the precondition
	for _, cl := range ct.Requires {
		if e.clauseApplies(cl) {
			s.assume(c.evalBool(cl.Expr))
		}
	}
	if mode == COMPLETE {
		for _, cl := range ct.Honest {
			s.assume(c.evalBool(cl.Expr))
		}
	}
	// proved lemmas instantiated on the parameters
	for _, cl := range ct.Uses {
		s.assume(c.evalBool(cl.Expr))
	}
	// equalities `x == const` from the precondition (typically len(s) == 3) are propagated
	// into the initial state so that loops over such lists run with concrete bounds
	sub := map[*Term]*Term{}
	for _, h := range s.pc {
		if h.Op == "=" {
			a, b := h.Args[0], h.Args[1]
			if a.IsConst() && b.Op == "var" {
				sub[b] = a
			} else if b.IsConst() && a.Op == "var" {
				sub[a] = b
			}
		}
	}
	if len(sub) > 0 {
		for o, v := range s.heap {
			s.heap[o] = substHeapEntry(v, sub)
		}
		for k, v := range fr.env {
			fr.env[k] = substValue(v, sub)
		}
		for k, v := range fr.params {
			fr.params[k] = substValue(v, sub)
		}
		fr.entryHeap = make(map[*Object]interface{}, len(s.heap))
		for k, v := range s.heap {
			fr.entryHeap[k] = v
		}
		c.env = copyEnv(fr.params)
	}
	if exhaustive {
		sel := sels[0]
		var p *Term
		if strings.Contains(sel.cs.Param, ".") {
			ex, err := parseExprSrc(sel.cs.Param)
			if err != nil {
				return err
			}
			p = c.intOf(c.eval(ex))
		} else {
			p = asInt(fr.params[sel.cs.Param])
		}
		e.emit(s, "cases-exhaustive", sel.cs.Param, And(Le(Int64C(int64(sel.cs.Lo)), p), Lt(p, Int64C(int64(sel.cs.Hi)))), fn.Pos(), fmt.Sprintf("precondition implies %d <= %s < %d", sel.cs.Lo, sel.cs.Param, sel.cs.Hi))
		return nil
	}
	// vacuity guard: the precondition must be satisfiable (with `flag cover-each-case`: in every case)
	e.noCover = len(sels) > 0 && !allFirst && !ct.Flags["cover-each-case"]
	if !e.noCover {
		tag := ""
		if ct.Flags["cover-each-case"] {
			tag = caseTag
		}
		cov := &Oblig{Name: fmt.Sprintf("%s/%s/cover@pre%s", funcKey(fn), mode, tag), Func: funcKey(fn), Mode: mode, Kind: "cover", Hyps: append([]*Term(nil), s.pc...), Goal: nil, Expect: "sat", Props: ct.Props, Src: "precondition satisfiable"}
		e.obligs = append(e.obligs, cov)
	}
	if ct.Flags["cover-each-case"] {
		e.noCover = true // only the precondition is covered per case; a case may legitimately never return
	}
	e.returnsSeen = 0
	e.run(s, nil)
	for siteKey := range ct.AtCall {
		if !e.atCallHit[funcKey(fn)+"|"+siteKey] {
			// the call site the clause speaks about is not reached on any path (deleted or renumbered)
			e.obligs = append(e.obligs, &Oblig{Name: fmt.Sprintf("%s/%s/at-call@%s", funcKey(fn), mode, siteKey), Func: funcKey(fn), Mode: mode, Kind: "at-call", Hyps: nil, Goal: BoolC(false), Expect: "unsat", Props: ct.Props, Src: "call site " + siteKey + " is never reached"})
		}
	}
	if e.returnsSeen == 0 && !ct.Flags["cover-each-case"] && !ct.Flags["never-returns"] {
		// no path reached a return: every postcondition would hold vacuously
		e.obligs = append(e.obligs, &Oblig{Name: fmt.Sprintf("%s/%s/cover@return", funcKey(fn), mode), Func: funcKey(fn), Mode: mode, Kind: "cover", Hyps: []*Term{BoolC(false)}, Goal: nil, Expect: "sat", Props: ct.Props, Src: "no path of the function reaches a return"})
	}
	return nil
}

func (e *Engine) atReturn(s *State, f *Frame, res []Value, pos token.Pos) {
	e.returnsSeen++
	ct := f.contract
	if ct == nil {
		return
	}
	s.results = res
	for _, want := range ct.Calls {
		found := false
		for _, got := range s.callLog {
			if got == want {
				found = true
			}
		}
		e.emit(s, "calls", want, BoolC(found), pos, "every returning path calls "+want)
	}
	env := copyEnv(f.params)
	names := e.resultNames(ct, len(res))
	for i, v := range res {
		env[names[i]] = v
	}
	c := &evalCtx{e: e, s: s, env: env, oldHeap: f.entryHeap, oldEnv: f.params, pkg: f.fn.Pkg.Pkg}
	if pos == token.NoPos {
		pos = f.fn.Pos()
	}
	e.frameCheck(s, f, ct, pos)
	// ghost assertions (proof hints): may mention the function's local variables by name;
	// parameters and results take precedence over locals of the same name
	localNames := map[string]nameRef{}
	for k, v := range f.names {
		if _, shadow := env[k]; !shadow {
			localNames[k] = v
		}
	}
	c.names = localNames
	for k, cl := range ct.Asserts {
		if e.clauseApplies(cl) {
			e.emit(s, "lemma", fmt.Sprintf("%d", k), c.evalBool(cl.Expr), pos, cl.Src)
		}
	}
	// proved lemmas instantiated on parameters and results
	for _, cl := range ct.UsesAtRet {
		s.assume(c.evalBool(cl.Expr))
	}
	c.names = nil
	if len(ct.Ghosts) > 0 {
		// ghost results are the function's own locals of that name
		gn := map[string]nameRef{}
		for _, g := range ct.Ghosts {
			if g.Init != nil {
				c.names = localNames
				c.frame = f
				gn[g.Name] = nameRef{v: c.eval(g.Init)}
				c.names = nil
				continue
			}
			if v, ok := localNames[g.Name]; ok {
				gn[g.Name] = v
			} else {
				panic(execError{"ghost result " + g.Name + " is not a local variable of " + funcKey(f.fn)})
			}
		}
		c.names = gn
	}
	for k, cl := range ct.Ensures {
		if !e.clauseApplies(cl) || cl.Tag == "deferred" {
			continue
		}
		if cl.Props != nil && e.curProp != "" && !contains(cl.Props, e.curProp) {
			continue
		}
		t := c.evalBool(cl.Expr)
		site := fmt.Sprintf("%d", k)
		if cl.Tag != "" {
			site = cl.Tag
		}
		e.emit(s, "post", site, t, pos, cl.Src)
	}
	// reachability of the return (vacuity guard)
	if e.noCover {
		return
	}
	cov := &Oblig{Name: fmt.Sprintf("%s/%s/cover@return", funcKey(e.curFn), e.mode), Func: funcKey(e.curFn), Mode: e.mode, Kind: "cover", Hyps: s.coverHyps(), Expect: "sat", Props: ct.Props, Src: "normal return reachable"}
	e.obligs = append(e.obligs, cov)
}

// ---------------------------------------------------------------------------------
// globals

func (e *Engine) globalObject(g *ssa.Global) *Object {
	if o, ok := e.globals[g]; ok {
		return o
	}
	if g.Pkg != nil && inModulePkg(g.Pkg) {
		e.ensurePkgInit(g.Pkg)
		if o, ok := e.globals[g]; ok {
			return o
		}
	}
	o := newObject("global."+g.Name(), g.Type().(*types.Pointer).Elem())
	e.globals[g] = o
	a := &absCtx{e: e, s: &State{heap: e.globalVal}}
	e.globalVal[o] = a.abstractValue(o.typ, uniqueName("global."+g.Name()), nil)
	e.note("global " + g.String() + " treated as an unconstrained value")
	return o
}

func inModulePkg(p *ssa.Package) bool {
	return p != nil && strings.HasPrefix(p.Pkg.Path(), modulePrefix)
}

// ensurePkgInit executes the package initialiser of a module package once, concretely, to
// obtain the values of its package-level variables.  Variables that are written anywhere
// outside the initialiser are not trusted to keep that value: they become unconstrained.
func (e *Engine) ensurePkgInit(pkg *ssa.Package) {
	if e.pkgInit[pkg] {
		return
	}
	e.pkgInit[pkg] = true
	var gs []*ssa.Global
	for _, m := range pkg.Members {
		if g, ok := m.(*ssa.Global); ok {
			gs = append(gs, g)
		}
	}
	sort.Slice(gs, func(i, j int) bool { return gs[i].Name() < gs[j].Name() })
	for _, g := range gs {
		elem := g.Type().(*types.Pointer).Elem()
		o := newObject("global."+g.Name(), elem)
		e.globals[g] = o
		e.globalVal[o] = e.zeroValue(elem)
	}
	init := pkg.Func("init")
	if init != nil && len(init.Blocks) > 0 {
		savedMode, savedFn, savedC, savedObl := e.mode, e.curFn, e.curC, e.obligs
		e.mode, e.curFn, e.curC = PLAIN, init, nil
		e.inInit = true
		func() {
			defer func() {
				if r := recover(); r != nil {
					if ee, ok := r.(execError); ok {
						e.note("package initialiser of " + pkg.Pkg.Path() + " could not be evaluated (" + ee.msg + "): all its package-level variables are unconstrained")
						for _, g := range gs {
							o := e.globals[g]
							if _, isMap := o.typ.Underlying().(*types.Map); isMap {
								mo := newObject(g.Name()+".map", o.typ)
								e.globalVal[mo] = &MapVal{Opaque: true}
								e.globalVal[o] = VMap{Obj: mo}
								continue
							}
							func() {
								defer func() { recover() }()
								a := &absCtx{e: e, s: &State{heap: e.globalVal}}
								e.globalVal[o] = a.abstractValue(o.typ, uniqueName("global."+g.Name()), nil)
							}()
						}
						return
					}
					panic(r)
				}
			}()
			s := &State{heap: e.globalVal}
			fr := e.newFrame(init, nil, nil)
			s.stack = []*Frame{fr}
			e.run(s, nil)
		}()
		e.inInit = false
		e.mode, e.curFn, e.curC, e.obligs = savedMode, savedFn, savedC, savedObl
	}
	// globals written outside init are not frozen
	for _, g := range gs {
		full := pkg.Pkg.Name() + "." + g.Name()
		if writers := e.globalWriters[full]; len(writers) > 0 {
			o := e.globals[g]
			elem := o.typ
			if _, isMap := elem.Underlying().(*types.Map); isMap {
				mo := newObject(g.Name()+".map", elem)
				e.globalVal[mo] = &MapVal{Opaque: true}
				e.globalVal[o] = VMap{Obj: mo}
				continue
			}
			if _, isMutex := e.globalVal[o].(VOpaque); isMutex {
				continue
			}
			a := &absCtx{e: e, s: &State{heap: e.globalVal}}
			e.globalVal[o] = a.abstractValue(elem, uniqueName("global."+g.Name()), nil)
			e.note("global " + full + " is written outside its initialiser (" + strings.Join(writers, ", ") + "): treated as an unconstrained value")
		}
	}
}

func (e *Engine) lookupGlobalByName(s *State, pkg *types.Package, name string) (Value, bool) {
	if pkg == nil {
		return nil, false
	}
	sp := e.prog.Package(pkg)
	if sp == nil {
		return nil, false
	}
	switch m := sp.Members[name].(type) {
	case *ssa.Global:
		o := e.globalObject(m)
		v := e.load(s, VPtr{Obj: o}, token.NoPos)
		return v, true
	case *ssa.NamedConst:
		return e.constValue(m.Value), true
	}
	return nil, false
}

func (e *Engine) lookupQualified(s *State, pkgName, name string) (Value, bool) {
	for _, p := range e.prog.AllPackages() {
		if p.Pkg.Name() == pkgName && strings.HasPrefix(p.Pkg.Path(), modulePrefix) {
			return e.lookupGlobalByName(s, p.Pkg, name)
		}
	}
	return nil, false
}

// ---------------------------------------------------------------------------------
// builtins

func (e *Engine) builtin(s *State, f *Frame, x *ssa.Call, name string, args []Value, probe *probeRec) Value {
	switch name {
	case "len":
		switch v := args[0].(type) {
		case VSlice:
			return VInt{v.Len}
		case VArr:
			return VInt{Int64C(int64(len(v.E)))}
		case VStr:
			if v.T.Op == "sconst" {
				return VInt{Int64C(int64(len(v.T.Name)))}
			}
			return VInt{intern(&Term{Op: "str.len", Args: []*Term{v.T}, Sort: SInt})}
		case VMap:
			if c, ok := s.heap[v.Obj].(*MapVal); ok && !c.Opaque {
				return VInt{Int64C(int64(len(c.Keys)))}
			}
		case VPtr:
			if at, ok := x.Common().Args[0].Type().Underlying().(*types.Pointer); ok {
				if arr, ok := at.Elem().Underlying().(*types.Array); ok {
					return VInt{Int64C(arr.Len())}
				}
			}
		}
		panic(execError{fmt.Sprintf("len of %T", args[0])})
	case "cap":
		if v, ok := args[0].(VSlice); ok {
			return VInt{v.Cap}
		}
	case "append":
		return e.appendOp(s, f, x, args[0].(VSlice), args[1], probe)
	case "copy":
		dst := args[0].(VSlice)
		src, ok := args[1].(VSlice)
		if !ok {
			panic(execError{"copy from non-slice"})
		}
		if dst.Len.IsConst() && src.Len.IsConst() && dst.Obj != nil {
			n := dst.Len.Val.Int64()
			if src.Len.Val.Int64() < n {
				n = src.Len.Val.Int64()
			}
			for i := int64(0); i < n; i++ {
				v := e.sliceAt(s, src, Int64C(i))
				p := VPtr{Obj: dst.Obj, Path: []PathElem{{Field: -1, Index: Add(dst.Off, Int64C(i))}}}
				e.recordWrite(s, probe, p)
				e.store(s, p, v, x.Pos())
			}
			return VInt{Int64C(n)}
		}
		if dst.Len.IsConst() && dst.Obj != nil && dst.Len.Val.Int64() <= 64 {
			// concrete destination, symbolic source length: element i is overwritten iff i < len(src)
			n := dst.Len.Val.Int64()
			for i := int64(0); i < n; i++ {
				p := VPtr{Obj: dst.Obj, Path: []PathElem{{Field: -1, Index: Add(dst.Off, Int64C(i))}}}
				oldv := e.load(s, p, x.Pos())
				inRange := Lt(Int64C(i), src.Len)
				var nv Value
				switch {
				case inRange.IsTrue():
					nv = e.sliceAt(s, src, Int64C(i))
				case inRange.IsFalse():
					nv = oldv
				default:
					nv = mergeValues(inRange, e.sliceAt(s, src, Int64C(i)), oldv)
				}
				e.recordWrite(s, probe, p)
				e.store(s, p, nv, x.Pos())
			}
			return VInt{Ite(Le(src.Len, Int64C(n)), src.Len, Int64C(n))}
		}
		if dst.Obj != nil {
			// general case: one sequence update  dst[k] = src[k] for 0 <= k < min(len(dst), len(src))
			n := Ite(Le(dst.Len, src.Len), dst.Len, src.Len)
			oldSeq := e.sliceSeq(s, dst)
			srcSeq := e.sliceSeq(s, src)
			dOff, sOff := dst.Off, src.Off
			nseq := &Seq{Sym: func(j *Term) Value {
				in := And(Le(dOff, j), Lt(j, Add(dOff, n)))
				sv, ok1 := srcSeq.at(Add(Sub(j, dOff), sOff))
				ov, ok2 := oldSeq.at(j)
				switch {
				case ok1 && ok2:
					return mergeValues(in, sv, ov)
				case ok1:
					return sv
				case ok2:
					return ov
				}
				panic(pathEnd{"copy: index out of range"})
			}, Desc: "copy"}
			p := VPtr{Obj: dst.Obj}
			e.recordWrite(s, probe, p)
			if _, isSeq := s.heap[dst.Obj].(*Seq); !isSeq {
				panic(execError{"copy into a fixed-size array with symbolic length"})
			}
			s.heap[dst.Obj] = nseq
			return VInt{n}
		}
		panic(execError{"copy with symbolic lengths unsupported"})
	case "print", "println":
		return VTuple{}
	case "min", "max":
		a, b := asInt(args[0]), asInt(args[1])
		if name == "min" {
			return VInt{Ite(Le(a, b), a, b)}
		}
		return VInt{Ite(Le(a, b), b, a)}
	}
	panic(execError{"unsupported builtin " + name})
}

func (e *Engine) appendOp(s *State, f *Frame, x *ssa.Call, dst VSlice, more Value, probe *probeRec) Value {
	src, ok := more.(VSlice)
	if !ok {
		if _, isStr := more.(VStr); isStr {
			panic(execError{"append(bytes, string) unsupported"})
		}
		if n, _ := isNilValue(more); n {
			return dst
		}
		panic(execError{fmt.Sprintf("append of %T", more)})
	}
	e.note("append modelled with value semantics (always a fresh backing array)")
	dseq := e.sliceSeq(s, dst)
	sseq := e.sliceSeq(s, src)
	obj := newObject("append@"+e.posOf(x.Pos()), x.Type())
	if dst.Len.IsConst() && src.Len.IsConst() && dst.Off.IsConst() && src.Off.IsConst() {
		var el []Value
		for i := int64(0); i < dst.Len.Val.Int64(); i++ {
			v, ok := dseq.at(Add(dst.Off, Int64C(i)))
			if !ok {
				panic(execError{"append: bad source index"})
			}
			el = append(el, v)
		}
		for i := int64(0); i < src.Len.Val.Int64(); i++ {
			v, ok := sseq.at(Add(src.Off, Int64C(i)))
			if !ok {
				panic(execError{"append: bad source index"})
			}
			el = append(el, v)
		}
		s.heap[obj] = &Seq{Conc: el}
		n := Int64C(int64(len(el)))
		return VSlice{Obj: obj, Off: Int64C(0), Len: n, Cap: n}
	}
	dl, doff, soff := dst.Len, dst.Off, src.Off
	s.heap[obj] = &Seq{Sym: func(i *Term) Value {
		dv, ok1 := dseq.at(Add(doff, i))
		sv, ok2 := sseq.at(Add(soff, Sub(i, dl)))
		if !ok1 && !ok2 {
			panic(execError{"append: element unavailable"})
		}
		if !ok1 {
			return sv
		}
		if !ok2 {
			return dv
		}
		return mergeValues(Lt(i, dl), dv, sv)
	}, Desc: "append"}
	n := Add(dst.Len, src.Len)
	return VSlice{Obj: obj, Off: Int64C(0), Len: n, Cap: n}
}

// ---------------------------------------------------------------------------------

func sortedOblNames(m map[string][]*Oblig) []string {
	var ks []string
	for k := range m {
		ks = append(ks, k)
	}
	sort.Strings(ks)
	return ks
}

func fatalf(format string, a ...interface{}) {
	fmt.Fprintf(os.Stderr, format+"\n", a...)
	os.Exit(2)
}

// proveLemma emits the obligation of a top-level lemma: its body for arbitrary integer parameters,
// with the opaque definitions it names revealed.
func (e *Engine) proveLemma(lm *Lemma) (err error) {
	if lm.Axiom {
		e.note("AXIOM " + lm.Name + " (assumed, not proved): " + lm.Src)
		return nil
	}
	defer func() {
		if r := recover(); r != nil {
			if ee, ok := r.(execError); ok {
				err = fmt.Errorf("lemma %s: %s", lm.Name, ee.msg)
				return
			}
			panic(r)
		}
	}()
	fake := &Contract{Name: "lemma." + lm.Name, Flags: map[string]bool{}, Props: lm.Props}
	for _, r := range lm.Reveal {
		fake.Flags["reveal:"+r] = true
	}
	saved := e.curC
	e.curC = fake
	defer func() { e.curC = saved }()
	env := map[string]Value{}
	for _, p := range lm.Params {
		env[p] = VInt{Fresh("lemma."+lm.Name+"."+p, SInt)}
	}
	c := &evalCtx{e: e, s: &State{heap: map[*Object]interface{}{}}, env: env}
	goal := c.evalBool(lm.Body)
	e.obligs = append(e.obligs, &Oblig{Name: "lemma/" + lm.Name, Func: "lemma." + lm.Name, Mode: PLAIN, Kind: "lemma", Goal: goal, Expect: "unsat", Src: lm.Src, Props: lm.Props})
	return nil
}

// frameCheck: the frame condition of modular reasoning.  Callers havoc exactly what a contract's `modifies`
// clauses name; so every object that existed at entry (reachable through parameters) or is a package-level
// variable, and whose content differs at return, must be rooted in a `modifies` clause.  (Writes to objects the
// function allocated itself are not visible to callers.)  One structural obligation per offending object.
func (e *Engine) frameCheck(s *State, f *Frame, ct *Contract, pos token.Pos) {
	if os.Getenv("GOVC_NO_FRAME") != "" {
		return
	}
	allowed := map[*Object]bool{}
	ac := &evalCtx{e: e, s: s, env: copyEnv(f.params), oldHeap: f.entryHeap, oldEnv: f.params, pkg: f.fn.Pkg.Pkg}
	for _, cl := range ct.Modifies {
		func() {
			defer func() { recover() }()
			saved := ac.s.heap
			ac.s.heap = f.entryHeap
			defer func() { ac.s.heap = saved }()
			if p := ac.evalAddr(cl.Expr); p.Obj != nil {
				allowed[p.Obj] = true
			}
		}()
		// `modifies s` for a slice-typed s: the elements of its backing store
		func() {
			defer func() { recover() }()
			saved := ac.s.heap
			ac.s.heap = f.entryHeap
			defer func() { ac.s.heap = saved }()
			if ex, ok := cl.Expr.(ast.Expr); ok {
				if sl, ok := ac.deref(ac.eval(ex)).(VSlice); ok && sl.Obj != nil {
					allowed[sl.Obj] = true
					// a slice of pointers (hint outputs []*big.Int): the pointees as well
					if sq, ok := ac.s.heap[sl.Obj].(*Seq); ok {
						for _, el := range sq.Conc {
							if p, ok := el.(VPtr); ok && p.Obj != nil {
								allowed[p.Obj] = true
							}
						}
					}
				}
			}
		}()
	}
	var offenders []string
	for obj, v0 := range f.entryHeap {
		v1, ok := s.heap[obj]
		if !ok || allowed[obj] {
			continue
		}
		if !sameHeapEntry(v0, v1) {
			offenders = append(offenders, obj.name)
		}
	}
	for obj, v1 := range s.heap {
		if gv, isGlobal := e.globalVal[obj]; isGlobal && !allowed[obj] && e.mapInvFor(obj) == nil {
			if _, atEntry := f.entryHeap[obj]; !atEntry && !sameHeapEntry(gv, v1) {
				offenders = append(offenders, "global "+obj.name)
			}
		}
	}
	if len(offenders) == 0 {
		return
	}
	sort.Strings(offenders)
	e.emit(s, "frame", "", BoolC(false), pos, "writes outside the contract's modifies clauses: "+strings.Join(offenders, ", "))
}

func sameHeapEntry(a, b interface{}) bool {
	if sa, ok := a.(*Seq); ok {
		sb, ok2 := b.(*Seq)
		return ok2 && sa == sb
	}
	if ma, ok := a.(*MapVal); ok {
		mb, ok2 := b.(*MapVal)
		return ok2 && ma == mb
	}
	// the range-check ledger of goldilocks.Chip is append-only and read only by checkCollected; above
	// rangeCheckerCheck it is handled by the deferred-check rule (DESIGN §3.2), not by modifies clauses
	if sa, ok := a.(VStruct); ok {
		if sb, ok2 := b.(VStruct); ok2 && sa.T != nil && sa.T == sb.T && len(sa.F) == len(sb.F) {
			for i := range sa.F {
				if sa.T.Field(i).Name() == "rangeCheckCollected" {
					continue
				}
				if !reflect.DeepEqual(sa.F[i], sb.F[i]) {
					return false
				}
			}
			return true
		}
	}
	return reflect.DeepEqual(a, b)
}
