package main

import (
	"time"
	"fmt"
	"go/token"
	"go/types"
	"math/big"
	"os"
	"path/filepath"
	"strings"

	"golang.org/x/tools/go/ssa"
)

type probeRec struct {
	depth   int
	header  *ssa.BasicBlock
	pre     map[*Object]bool
	writes  map[string]VPtr
	aborted string
}

// run executes all paths starting from the initial state.
func (e *Engine) run(init *State, probe *probeRec) {
	work := []*State{init}
	paths := 0
	for len(work) > 0 {
		s := work[len(work)-1]
		work = work[:len(work)-1]
		paths++
		if paths > 20000 {
			panic(execError{"path explosion (>20000 paths)"})
		}
		e.runPath(s, &work, probe)
	}
}

func (e *Engine) runPath(s *State, work *[]*State, probe *probeRec) {
	defer func() {
		if r := recover(); r != nil {
			switch x := r.(type) {
			case pathEnd:
				// a Go runtime panic on this path (refusal)
				if os.Getenv("GOVC_DEBUG") != "" {
					fmt.Fprintf(os.Stderr, "path ends (probe=%v): %s in %s\n", probe != nil, x.why, s.top().fn.Name())
				}
				e.panicPath(s, probe, "runtime panic: "+x.why, token.NoPos)
			default:
				panic(r)
			}
		}
	}()
	for {
		f := s.top()
		if f.ip == 0 && !f.phisDone {
			if !e.enterBlock(s, f, probe) {
				return
			}
			f.phisDone = true
			continue
		}
		if f.ip >= len(f.blk.Instrs) {
			panic(execError{"fell off block"})
		}
		in := f.blk.Instrs[f.ip]
		s.steps++
		e.tick++
		if e.tick&127 == 0 && !e.deadline.IsZero() && time.Now().After(e.deadline) {
			panic(execError{fmt.Sprintf("generation budget of %d s exceeded in %s (the paths of this function are no longer enumerated in reasonable time)", e.genBudget, f.fn.Name())})
		}
		if s.steps > e.maxSteps {
			panic(execError{fmt.Sprintf("step budget exceeded in %s (loop without invariant?)", f.fn.Name())})
		}
		cont := e.step(s, f, in, work, probe)
		if !cont {
			return
		}
	}
}

func (e *Engine) panicPath(s *State, probe *probeRec, why string, pos token.Pos) {
	if probe != nil {
		return
	}
	// feasibility of a refusal path is only an obligation when the contract promises no panic
	if e.mode == COMPLETE || (e.curC != nil && e.curC.Flags["nopanic"]) {
		e.emit(s, "nopanic", "", BoolC(false), pos, why)
	}
	// refusal_implies E: a refusal is only allowed in entry states satisfying E
	if e.curC != nil && len(e.curC.RefusalImp) > 0 && len(s.stack) > 0 {
		root := s.stack[0]
		c := &evalCtx{e: e, s: s, env: copyEnv(root.params), oldHeap: root.entryHeap, oldEnv: root.params, pkg: root.fn.Pkg.Pkg}
		for _, cl := range e.curC.RefusalImp {
			e.emit(s, "refusal", fmt.Sprintf("L%d", cl.Line), c.evalBool(cl.Expr), pos, "refusal_implies "+cl.Src+" ("+why+")")
		}
	}
}

func (e *Engine) gotoBlock(f *Frame, b *ssa.BasicBlock) {
	f.prev = f.blk
	f.blk = b
	f.ip = 0
	f.phisDone = false
}

// enterBlock runs phis and loop-cut logic. Returns false if the path ends here.
func (e *Engine) enterBlock(s *State, f *Frame, probe *probeRec) bool {
	b := f.blk
	f.visits[b]++
	if os.Getenv("GOVC_DEBUG_BLOCK") != "" && fmt.Sprint(b.Index) == os.Getenv("GOVC_DEBUG_BLOCK") && len(s.stack) == 1 {
		pi := -1
		if f.prev != nil {
			pi = f.prev.Index
		}
		fmt.Fprintf(os.Stderr, "enter block %d from %d visits %d probe %v\n", b.Index, pi, f.visits[b], probe != nil)
	}
	if f.visits[b] > 70000 {
		panic(execError{"block visited too often in " + f.fn.Name() + " (loop needs an invariant)"})
	}
	// phis (simultaneous)
	nphi := 0
	var vals []Value
	for _, in := range b.Instrs {
		phi, ok := in.(*ssa.Phi)
		if !ok {
			break
		}
		nphi++
		idx := -1
		for i, p := range b.Preds {
			if p == f.prev {
				idx = i
			}
		}
		if idx < 0 {
			panic(execError{"phi without matching predecessor"})
		}
		vals = append(vals, e.val(s, f, phi.Edges[idx]))
	}
	li := f.loops
	for i := 0; i < nphi; i++ {
		phi := b.Instrs[i].(*ssa.Phi)
		f.env[phi] = vals[i]
		if phi.Comment != "" {
			e.bindName(f, nil, phi.Comment, nameRef{v: vals[i]})
			if ord, isH := li.ordinal[b]; isH {
				// loop-carried variables are also addressable as <name><loop ordinal> (nested range loops
				// all call their index `rangeindex`)
				e.bindNameSuffix(f, phi.Comment, fmt.Sprint(ord), nameRef{v: vals[i]})
			}
		}
	}
	f.ip = nphi
	e.bindLoopShapeAliases(f, b)
	body, isHeader := li.body[b]
	if probe != nil && len(s.stack) == probe.depth {
		if isHeader && b == probe.header && f.prev != nil && body[f.prev] {
			return false // back at the probed header
		}
		if !li.body[probe.header][b] {
			return false // left the probed loop
		}
	}
	if !isHeader || f.contract == nil {
		return true
	}
	invs := f.contract.LoopInv[li.ordinal[b]]
	if os.Getenv("GOVC_DEBUG_BLOCK") != "" && fmt.Sprint(b.Index) == os.Getenv("GOVC_DEBUG_BLOCK") {
		fmt.Fprintf(os.Stderr, "  header %d ordinal %d invs %d contract %s\n", b.Index, li.ordinal[b], len(invs), f.contract.Key())
	}
	if len(invs) == 0 {
		return true
	}
	ord := li.ordinal[b]
	inl := ""
	if len(s.stack) > 1 {
		inl = funcKey(f.fn) + "."
	}
	fromBack := f.prev != nil && body[f.prev]
	if fromBack {
		if probe == nil {
			for _, want := range f.contract.LoopCalls[ord] {
				found := false
				start := 0
				if snap := f.entrySnap[ord]; snap != nil {
					start = snap.callLogLen
				}
				for _, got := range s.callLog[min(start, len(s.callLog)):] {
					if got == want {
						found = true
					}
				}
				e.emit(s, "loop-calls", fmt.Sprintf("%sloop%d.%s", inl, ord, want), BoolC(found), b.Instrs[0].Pos(), "every iteration of the loop calls "+want)
			}
			for k, cl := range invs {
				t := e.evalInv(s, f, cl)
				e.emit(s, "inv-step", fmt.Sprintf("%sloop%d#%d", inl, ord, k), t, b.Instrs[0].Pos(), cl.Src)
			}
		}
		return false
	}
	// loop entry: snapshot for atentry(...)
	if f.entrySnap == nil {
		f.entrySnap = map[int]*loopSnap{}
	}
	snap := &loopSnap{names: make(map[string]nameRef, len(f.names)), heap: make(map[*Object]interface{}, len(s.heap)), callLogLen: len(s.callLog)}
	for k, v := range f.names {
		snap.names[k] = v
	}
	for k, v := range s.heap {
		snap.heap[k] = v
	}
	f.entrySnap[ord] = snap
	if probe == nil {
		for k, cl := range invs {
			t := e.evalInv(s, f, cl)
			e.emit(s, "inv-init", fmt.Sprintf("%sloop%d#%d", inl, ord, k), t, b.Instrs[0].Pos(), cl.Src)
		}
	}
	// determine the set of heap locations written by the loop (fixpoint of probes)
	writes := map[string]VPtr{}
	for iter := 0; iter < 6; iter++ {
		ps := s.clone()
		pf := ps.top()
		e.havocLoop(ps, pf, b, nphi, writes)
		for _, cl := range invs {
			ps.assume(e.evalInv(ps, pf, cl))
		}
		for _, cl := range f.contract.LoopUse[ord] {
			ps.assume(e.evalInv(ps, pf, cl))
		}
		rec := &probeRec{depth: len(ps.stack), header: b, pre: map[*Object]bool{}, writes: map[string]VPtr{}}
		for o := range ps.heap {
			rec.pre[o] = true
		}
		for k, v := range writes {
			rec.writes[k] = v
		}
		pf.phisDone = true
		saved := e.obligs
		savedProbing := e.probing
		e.probing = true
		e.run(ps, rec)
		e.probing = savedProbing
		e.obligs = saved
		if len(rec.writes) == len(writes) {
			break
		}
		writes = rec.writes
	}
	e.havocLoop(s, f, b, nphi, writes)
	for _, cl := range invs {
		s.assume(e.evalInv(s, f, cl))
	}
	// lemma / axiom instances on the loop state
	for _, cl := range f.contract.LoopUse[ord] {
		s.assume(e.evalInv(s, f, cl))
	}
	return true
}

func writeKey(p VPtr) string {
	var sb strings.Builder
	sb.WriteString(fmt.Sprint(p.Obj.id))
	for _, pe := range p.Path {
		if pe.Index != nil {
			break
		}
		sb.WriteString(fmt.Sprintf(".%d", pe.Field))
	}
	return sb.String()
}

func (e *Engine) recordWrite(s *State, probe *probeRec, p VPtr) {
	if probe == nil || p.Obj == nil {
		return
	}
	if !probe.pre[p.Obj] {
		if _, isGlobal := e.globalVal[p.Obj]; !isGlobal {
			return
		}
	}
	// truncate path at first index
	var path []PathElem
	for _, pe := range p.Path {
		if pe.Index != nil {
			break
		}
		path = append(path, pe)
	}
	q := VPtr{Obj: p.Obj, Path: path}
	probe.writes[writeKey(q)] = q
}

func (e *Engine) havocLoop(s *State, f *Frame, b *ssa.BasicBlock, nphi int, writes map[string]VPtr) {
	a := &absCtx{e: e, s: s}
	for i := 0; i < nphi; i++ {
		phi := b.Instrs[i].(*ssa.Phi)
		nm := phi.Comment
		if nm == "" {
			nm = phi.Name()
		}
		v := a.abstractValue(phi.Type(), uniqueName("loop."+nm), nil)
		f.env[phi] = v
		if phi.Comment != "" {
			e.bindName(f, nil, phi.Comment, nameRef{v: v})
			if ord, isH := f.loops.ordinal[b]; isH {
				e.bindNameSuffix(f, phi.Comment, fmt.Sprint(ord), nameRef{v: v})
			}
		}
	}
	e.bindLoopShapeAliases(f, b)
	for _, k := range sortedKeys(writes) {
		p := writes[k]
		t := e.typeAtPath(p)
		if t == nil {
			panic(execError{"cannot determine type of loop-modified location " + p.Obj.name})
		}
		if _, isSlice := s.heap[p.Obj].(*Seq); isSlice && len(p.Path) == 0 {
			// backing store of a slice: fresh symbolic sequence
			el := t
			if sl, ok := t.Underlying().(*types.Slice); ok {
				el = sl.Elem()
			} else if ar, ok := t.Underlying().(*types.Array); ok {
				el = ar.Elem()
			}
			base := uniqueName("loop." + p.Obj.name)
			s.heap[p.Obj] = &Seq{Sym: func(i *Term) Value {
				sub := &absCtx{e: e, depth: 1}
				return sub.abstractValue(el, base+"[]", []*Term{i})
			}, Desc: base}
			continue
		}
		nv := a.abstractValue(t, uniqueName("loop."+p.Obj.name), nil)
		e.store(s, p, nv, token.NoPos)
	}
	for _, fct := range a.facts {
		s.assume(fct)
	}
}

func (e *Engine) typeAtPath(p VPtr) types.Type {
	t := p.Obj.typ
	for _, pe := range p.Path {
		if t == nil {
			return nil
		}
		switch u := t.Underlying().(type) {
		case *types.Struct:
			t = u.Field(pe.Field).Type()
		case *types.Array:
			t = u.Elem()
		case *types.Slice:
			t = u.Elem()
		default:
			return nil
		}
	}
	return t
}

func (e *Engine) evalInv(s *State, f *Frame, cl Clause) *Term {
	c := &evalCtx{e: e, s: s, env: copyEnv(f.params), names: f.names, oldHeap: f.entryHeap, oldEnv: f.params, pkg: f.fn.Pkg.Pkg, frame: f}
	return c.evalBool(cl.Expr)
}

func copyEnv(m map[string]Value) map[string]Value {
	n := make(map[string]Value, len(m))
	for k, v := range m {
		n[k] = v
	}
	return n
}

// ---------------------------------------------------------------------------------

func (e *Engine) step(s *State, f *Frame, in ssa.Instruction, work *[]*State, probe *probeRec) bool {
	switch x := in.(type) {
	case *ssa.DebugRef:
		if id, ok := x.Expr.(interface{ String() string }); ok {
			_ = id
		}
		if x.Object() != nil {
			if prev, ok := f.names[x.Object().Name()]; ok && prev.isAddr && !x.IsAddr {
				// the variable lives in memory: keep its address (a value DebugRef is only a snapshot)
				break
			}
			if _, isVar := x.Object().(*types.Var); isVar {
				if v, ok := f.env[x.X]; ok {
					e.bindName(f, x.Object(), x.Object().Name(), nameRef{v: v, isAddr: x.IsAddr})
				} else if c, ok := x.X.(*ssa.Const); ok {
					e.bindName(f, x.Object(), x.Object().Name(), nameRef{v: e.constValue(c)})
				} else if p, ok := x.X.(*ssa.Parameter); ok {
					if v, ok := f.env[p]; ok {
						e.bindName(f, x.Object(), x.Object().Name(), nameRef{v: v})
					}
				}
			}
		}
	case *ssa.Alloc:
		obj := newObject(x.Comment, x.Type().(*types.Pointer).Elem())
		s.heap[obj] = e.zeroValue(x.Type().(*types.Pointer).Elem())
		if arr, ok := s.heap[obj].(VArr); ok {
			_ = arr
		}
		f.env[x] = VPtr{Obj: obj}
		if x.Comment != "" && x.Comment != "complit" && x.Comment != "varargs" && !strings.HasPrefix(x.Comment, "new") && !strings.Contains(x.Comment, ".") {
			e.bindName(f, nil, x.Comment, nameRef{v: VPtr{Obj: obj}, isAddr: true})
		}
	case *ssa.Store:
		p := e.val(s, f, x.Addr).(VPtr)
		v := e.val(s, f, x.Val)
		e.recordWrite(s, probe, p)
		e.store(s, p, v, x.Pos())
	case *ssa.UnOp:
		f.env[x] = e.unop(s, f, x)
	case *ssa.BinOp:
		f.env[x] = e.binop(s, x.Op, e.val(s, f, x.X), e.val(s, f, x.Y), x.X.Type(), x.Type(), x.Pos())
	case *ssa.FieldAddr:
		if pp, isPure := e.val(s, f, x.X).(VPurePtr); isPure {
			if st, ok := pp.V.(VStruct); ok {
				f.env[x] = VPurePtr{V: st.F[x.Field]}
				break
			}
		}
		p, ok := e.val(s, f, x.X).(VPtr)
		if !ok {
			panic(execError{fmt.Sprintf("FieldAddr on %T at %s", e.val(s, f, x.X), e.posOf(x.Pos()))})
		}
		if p.Obj == nil {
			panic(pathEnd{"nil pointer field access"})
		}
		np := VPtr{Obj: p.Obj, Path: append(append([]PathElem(nil), p.Path...), PathElem{Field: x.Field})}
		f.env[x] = np
	case *ssa.Field:
		st := e.val(s, f, x.X).(VStruct)
		f.env[x] = st.F[x.Field]
	case *ssa.IndexAddr:
		f.env[x] = e.indexAddr(s, f, x, probe)
	case *ssa.Index:
		base := e.val(s, f, x.X)
		idx := asInt(e.val(s, f, x.Index))
		switch b := base.(type) {
		case VArr:
			e.boundsCheck(s, idx, Int64C(int64(len(b.E))), x.Pos(), probe)
			sq := &Seq{Conc: b.E}
			v, ok := sq.at(idx)
			if !ok {
				panic(pathEnd{"array index out of range"})
			}
			f.env[x] = v
		case VStr:
			panic(execError{"string indexing unsupported"})
		default:
			panic(execError{fmt.Sprintf("Index on %T", base)})
		}
	case *ssa.Slice:
		f.env[x] = e.sliceOp(s, f, x, probe)
	case *ssa.MakeSlice:
		ln := asInt(e.val(s, f, x.Len))
		cp := asInt(e.val(s, f, x.Cap))
		elemT := x.Type().Underlying().(*types.Slice).Elem()
		obj := newObject("make@"+e.posOf(x.Pos()), x.Type())
		if cp.IsConst() && cp.Val.IsInt64() && cp.Val.Int64() <= 4096 {
			n := int(cp.Val.Int64())
			el := make([]Value, n)
			for i := range el {
				el[i] = e.zeroValue(elemT)
			}
			s.heap[obj] = &Seq{Conc: el}
		} else {
			zv := e.zeroValue(elemT)
			s.heap[obj] = &Seq{Sym: func(i *Term) Value { return zv }, Desc: "make"}
			if e.mode != COMPLETE {
				s.assume(Le(Int64C(0), ln))
			}
		}
		f.env[x] = VSlice{Obj: obj, Off: Int64C(0), Len: ln, Cap: cp}
	case *ssa.MakeMap:
		obj := newObject("map@"+e.posOf(x.Pos()), x.Type())
		s.heap[obj] = &MapVal{}
		f.env[x] = VMap{Obj: obj}
	case *ssa.MapUpdate:
		m := e.val(s, f, x.Map).(VMap)
		mv, inHeap := s.heap[m.Obj].(*MapVal)
		if !inHeap {
			mv = e.globalVal[m.Obj].(*MapVal)
		}
		nm := &MapVal{Keys: append(append([]Value(nil), mv.Keys...), e.val(s, f, x.Key)), Vals: append(append([]Value(nil), mv.Vals...), e.val(s, f, x.Value)), Opaque: mv.Opaque}
		e.recordWrite(s, probe, VPtr{Obj: m.Obj})
		if inv := e.mapInvFor(m.Obj); inv != nil && probe == nil {
			c := &evalCtx{e: e, s: s, env: map[string]Value{inv.Params[0]: e.val(s, f, x.Value)}, pkg: f.fn.Pkg.Pkg}
			e.emit(s, "mapinv", inv.Name, c.evalBool(inv.Body), x.Pos(), inv.Src)
		}
		if _, isGlobal := e.globalVal[m.Obj]; isGlobal {
			if _, inHeap := s.heap[m.Obj]; !inHeap {
				// path-local copy of a global map
			}
		}
		s.heap[m.Obj] = nm
	case *ssa.Lookup:
		f.env[x] = e.lookupOp(s, f, x)
	case *ssa.MakeInterface:
		f.env[x] = e.makeInterface(s, f, x)
	case *ssa.ChangeInterface:
		f.env[x] = e.val(s, f, x.X)
	case *ssa.ChangeType:
		f.env[x] = e.val(s, f, x.X)
	case *ssa.Convert:
		f.env[x] = e.convert(s, e.val(s, f, x.X), x.X.Type(), x.Type(), x.Pos())
	case *ssa.MakeClosure:
		var fv []Value
		for _, b := range x.Bindings {
			fv = append(fv, e.val(s, f, b))
		}
		f.env[x] = VFunc{Fn: x.Fn.(*ssa.Function), Free: fv}
	case *ssa.Extract:
		t := e.val(s, f, x.Tuple).(VTuple)
		f.env[x] = t.E[x.Index]
	case *ssa.TypeAssert:
		f.env[x] = e.typeAssert(s, f, x)
	case *ssa.Phi:
		// handled at block entry
	case *ssa.Jump:
		e.gotoBlock(f, f.blk.Succs[0])
		return true
	case *ssa.If:
		c := asBool(e.val(s, f, x.Cond))
		if c.IsTrue() {
			e.gotoBlock(f, f.blk.Succs[0])
			return true
		}
		if c.IsFalse() {
			e.gotoBlock(f, f.blk.Succs[1])
			return true
		}
		// a loop whose condition stays symbolic needs an invariant: give up early instead of unrolling it
		if _, isHeader := f.loops.body[f.blk]; isHeader || f.visits[f.blk] > 1 {
			f.symIters++
			if f.symIters > 96 {
				panic(execError{"loop with a symbolic bound in " + f.fn.Name() + " at block " + fmt.Sprint(f.blk.Index) + " (" + f.blk.Comment + ", visits " + fmt.Sprint(f.visits[f.blk]) + ", probe " + fmt.Sprint(probe != nil) + ") needs an invariant (or its callee a contract)"})
			}
		}
		// symbolic branch: prune a side that the path condition excludes (interval reasoning first,
		// the solver only when a block is being revisited, i.e. inside an unrolled loop)
		if ft, ff := e.feasibleSides(s, f, c); !ft {
			s.assume(Not(c))
			e.gotoBlock(f, f.blk.Succs[1])
			return true
		} else if !ff {
			s.assume(c)
			e.gotoBlock(f, f.blk.Succs[0])
			return true
		}
		// fork
		other := s.clone()
		of := other.top()
		other.assume(Not(c))
		e.gotoBlock(of, of.blk.Succs[1])
		*work = append(*work, other)
		s.assume(c)
		e.gotoBlock(f, f.blk.Succs[0])
		return true
	case *ssa.Return:
		var res []Value
		for _, r := range x.Results {
			res = append(res, e.val(s, f, r))
		}
		return e.doReturn(s, f, res, x.Pos(), probe)
	case *ssa.Panic:
		e.panicPath(s, probe, "panic at "+e.posOf(x.Pos()), x.Pos())
		return false
	case *ssa.RunDefers:
	case *ssa.Defer:
		// only the mutex idiom is accepted
		if callee := x.Call.StaticCallee(); callee != nil && strings.Contains(callee.String(), "sync.Mutex") {
			e.note("sync.Mutex lock/unlock dropped: sequential execution assumed")
		} else if callee := x.Call.StaticCallee(); callee != nil && strings.HasSuffix(callee.String(), "os.File).Close") {
			e.note("deferred (*os.File).Close dropped: no effect on the modelled state")
		} else {
			panic(execError{"unsupported defer at " + e.posOf(x.Pos())})
		}
	case *ssa.Call:
		return e.execCall(s, f, x, work, probe)
	case *ssa.Range:
		f.env[x] = e.rangeInit(s, f, x)
	case *ssa.Next:
		f.env[x] = e.rangeNext(s, f, x)
	case *ssa.Go, *ssa.Select, *ssa.Send, *ssa.MakeChan:
		panic(execError{"outside subset: concurrency instruction at " + e.posOf(in.Pos())})
	default:
		panic(execError{fmt.Sprintf("unsupported instruction %T at %s", in, e.posOf(in.Pos()))})
	}
	f.ip++
	return true
}

func (e *Engine) boundsCheck(s *State, idx, ln *Term, pos token.Pos, probe *probeRec) {
	cond := And(Le(Int64C(0), idx), Lt(idx, ln))
	if cond.IsTrue() {
		return
	}
	if cond.IsFalse() {
		panic(pathEnd{"index out of range at " + e.posOf(pos)})
	}
	if probe == nil && (e.mode == COMPLETE || (e.curC != nil && e.curC.Flags["nopanic"])) {
		e.emit(s, "index", "", cond, pos, "index in range")
	} else {
		// out-of-range is a refusal (Go panics): continue on the in-range part
		s.assume(cond)
	}
}

func (e *Engine) indexAddr(s *State, f *Frame, x *ssa.IndexAddr, probe *probeRec) Value {
	base := e.val(s, f, x.X)
	idx := asInt(e.val(s, f, x.Index))
	switch b := base.(type) {
	case VPurePtr: // address inside a value-semantics container: loads only
		if arr, ok := b.V.(VArr); ok {
			e.boundsCheck(s, idx, Int64C(int64(len(arr.E))), x.Pos(), probe)
			sq := &Seq{Conc: arr.E}
			v, ok := sq.at(idx)
			if !ok {
				panic(pathEnd{"index out of range"})
			}
			return VPurePtr{V: v}
		}
		panic(execError{"IndexAddr through a read-only element address"})
	case VPtr: // pointer to array
		if b.Obj == nil {
			panic(pathEnd{"nil array pointer"})
		}
		at := x.X.Type().Underlying().(*types.Pointer).Elem().Underlying().(*types.Array)
		e.boundsCheck(s, idx, Int64C(at.Len()), x.Pos(), probe)
		return VPtr{Obj: b.Obj, Path: append(append([]PathElem(nil), b.Path...), PathElem{Field: -1, Index: idx})}
	case VSlice:
		e.boundsCheck(s, idx, b.Len, x.Pos(), probe)
		if b.Obj == nil {
			if b.Pure != nil && b.Home != nil {
				// element of an inline slice: its address extends the address of the slice
				return VPtr{Obj: b.Home.Obj, Path: append(append([]PathElem(nil), b.Home.Path...), PathElem{Field: -1, Index: Add(b.Off, idx)})}
			}
			if b.Pure != nil {
				v, ok := b.Pure.at(Add(b.Off, idx))
				if !ok {
					panic(pathEnd{"index out of range"})
				}
				return VPurePtr{V: v}
			}
			panic(pathEnd{"index of nil slice"})
		}
		return VPtr{Obj: b.Obj, Path: []PathElem{{Field: -1, Index: Add(b.Off, idx)}}}
	}
	panic(execError{fmt.Sprintf("IndexAddr on %T at %s", base, e.posOf(x.Pos()))})
}

// VPurePtr is the address of an element of a pure (value-semantics) slice: loads only.
type VPurePtr struct{ V Value }

func (e *Engine) unop(s *State, f *Frame, x *ssa.UnOp) Value {
	v := e.val(s, f, x.X)
	switch x.Op {
	case token.MUL: // load
		switch p := v.(type) {
		case VPtr:
			return e.load(s, p, x.Pos())
		case VPurePtr:
			return p.V
		case VBigRef:
			return VInt{p.T}
		}
		panic(execError{fmt.Sprintf("load through %T at %s", v, e.posOf(x.Pos()))})
	case token.NOT:
		return VBool{Not(asBool(v))}
	case token.SUB:
		r := Neg(asInt(v))
		if u, n := isUnsigned(x.Type()); u {
			r = Mod(r, IntC(bigPow2(n)))
		}
		return VInt{r}
	case token.XOR:
		t := asInt(v)
		if u, n := isUnsigned(x.Type()); u {
			return VInt{Sub(IntC(new(big.Int).Sub(bigPow2(n), bigOne)), t)}
		}
		return VInt{Sub(Neg(t), Int64C(1))}
	}
	panic(execError{"unsupported unary op " + x.Op.String()})
}

func (e *Engine) binop(s *State, op token.Token, l, r Value, lt types.Type, rt types.Type, pos token.Pos) Value {
	switch op {
	case token.EQL, token.NEQ:
		var t *Term
		switch a := l.(type) {
		case VInt:
			t = Eq(a.T, asInt(r))
		case VBool:
			t = Eq(a.T, asBool(r))
		case VStr:
			t = Eq(a.T, r.(VStr).T)
		case VFloat:
			t = BoolC(a.F == r.(VFloat).F)
		default:
			// nil comparisons
			if ln, ok := isNilValue(r); ok && ln {
				t = e.nilTerm(l)
			} else if ln, ok := isNilValue(l); ok && ln {
				t = e.nilTerm(r)
			} else if li, ok := l.(VIface); ok {
				ri, ok2 := r.(VIface)
				if ok2 && li.V != nil && ri.V != nil {
					if _, isInt := li.V.(VInt); isInt {
						t = Eq(asInt(li.V), asInt(ri.V))
					}
				}
			} else if la, ok := l.(VArr); ok {
				ra := r.(VArr)
				lf := flatten(la, nil)
				rf := flatten(ra, nil)
				var cs []*Term
				for i := range lf {
					cs = append(cs, Eq(lf[i], rf[i]))
				}
				t = And(cs...)
			} else if ls, ok := l.(VStruct); ok {
				lf := flatten(ls, nil)
				rf := flatten(r, nil)
				var cs []*Term
				for i := range lf {
					cs = append(cs, Eq(lf[i], rf[i]))
				}
				t = And(cs...)
			} else if lp, ok := l.(VPtr); ok {
				rp := r.(VPtr)
				t = BoolC(lp.Obj == rp.Obj && len(lp.Path) == len(rp.Path))
			}
			if t == nil {
				panic(execError{fmt.Sprintf("unsupported comparison %T == %T at %s", l, r, e.posOf(pos))})
			}
		}
		if op == token.NEQ {
			t = Not(t)
		}
		return VBool{t}
	}
	if lf, ok := l.(VFloat); ok {
		rf := r.(VFloat)
		switch op {
		case token.ADD:
			return VFloat{lf.F + rf.F}
		case token.SUB:
			return VFloat{lf.F - rf.F}
		case token.MUL:
			return VFloat{lf.F * rf.F}
		case token.QUO:
			return VFloat{lf.F / rf.F}
		case token.LSS:
			return VBool{BoolC(lf.F < rf.F)}
		case token.GTR:
			return VBool{BoolC(lf.F > rf.F)}
		}
		panic(execError{"unsupported float op"})
	}
	if ls, ok := l.(VStr); ok {
		rs := r.(VStr)
		if op == token.ADD {
			if ls.T.Op == "sconst" && rs.T.Op == "sconst" {
				return VStr{StrC(ls.T.Name + rs.T.Name)}
			}
			return VStr{intern(&Term{Op: "str.++", Args: []*Term{ls.T, rs.T}, Sort: SStr})}
		}
		panic(execError{"unsupported string op " + op.String()})
	}
	if lb, ok := l.(VBool); ok {
		rb := r.(VBool)
		switch op {
		case token.AND, token.LAND:
			return VBool{And(lb.T, rb.T)}
		case token.OR, token.LOR:
			return VBool{Or(lb.T, rb.T)}
		}
	}
	a := asInt(l)
	b := asInt(r)
	uns, nbits := isUnsigned(rt)
	wrap := func(t *Term) Value {
		if uns {
			if t.IsConst() {
				return VInt{Mod(t, IntC(bigPow2(nbits)))}
			}
			return VInt{e.wrapUnsigned(s, t, nbits)}
		}
		return VInt{t}
	}
	switch op {
	case token.ADD:
		return wrap(Add(a, b))
	case token.SUB:
		return wrap(Sub(a, b))
	case token.MUL:
		return wrap(Mul(a, b))
	case token.QUO:
		if b.IsConst() && b.Val.Sign() == 0 {
			panic(pathEnd{"division by zero"})
		}
		if uns || (a.IsConst() && a.Val.Sign() >= 0 && b.IsConst() && b.Val.Sign() > 0) {
			return VInt{Div(a, b)}
		}
		if a.IsConst() && b.IsConst() {
			return VInt{IntC(new(big.Int).Quo(a.Val, b.Val))}
		}
		// Go truncated division for a positive divisor
		e.assumeOrCheckPositive(s, b, pos)
		return VInt{Ite(Le(Int64C(0), a), Div(a, b), Neg(Div(Neg(a), b)))}
	case token.REM:
		if b.IsConst() && b.Val.Sign() == 0 {
			panic(pathEnd{"division by zero"})
		}
		if uns || (a.IsConst() && a.Val.Sign() >= 0 && b.IsConst() && b.Val.Sign() > 0) {
			return VInt{Mod(a, b)}
		}
		if a.IsConst() && b.IsConst() {
			return VInt{IntC(new(big.Int).Rem(a.Val, b.Val))}
		}
		e.assumeOrCheckPositive(s, b, pos)
		return VInt{Ite(Le(Int64C(0), a), Mod(a, b), Neg(Mod(Neg(a), b)))}
	case token.LSS:
		return VBool{Lt(a, b)}
	case token.LEQ:
		return VBool{Le(a, b)}
	case token.GTR:
		return VBool{Lt(b, a)}
	case token.GEQ:
		return VBool{Le(b, a)}
	case token.SHL:
		e.shiftCount(s, b, pos)
		return wrap(Mul(a, appSimplify("pow2", SInt, []*Term{b})))
	case token.SHR:
		e.shiftCount(s, b, pos)
		return VInt{Div(a, appSimplify("pow2", SInt, []*Term{b}))}
	case token.AND:
		if a.IsConst() && b.IsConst() && a.Val.Sign() >= 0 && b.Val.Sign() >= 0 {
			return VInt{IntC(new(big.Int).And(a.Val, b.Val))}
		}
		if b.IsConst() {
			k := new(big.Int).Add(b.Val, bigOne)
			if k.Sign() > 0 && new(big.Int).And(k, b.Val).Sign() == 0 { // mask 2^k-1
				return VInt{Mod(a, IntC(k))}
			}
		}
		if a.IsConst() {
			k := new(big.Int).Add(a.Val, bigOne)
			if k.Sign() > 0 && new(big.Int).And(k, a.Val).Sign() == 0 {
				return VInt{Mod(b, IntC(k))}
			}
		}
		return VInt{App("bitand", SInt, a, b)}
	case token.OR:
		if a.IsConst() && b.IsConst() && a.Val.Sign() >= 0 && b.Val.Sign() >= 0 {
			return VInt{IntC(new(big.Int).Or(a.Val, b.Val))}
		}
		return VInt{App("bitor", SInt, a, b)}
	case token.XOR:
		if a.IsConst() && b.IsConst() && a.Val.Sign() >= 0 && b.Val.Sign() >= 0 {
			return VInt{IntC(new(big.Int).Xor(a.Val, b.Val))}
		}
		return VInt{App("bitxor", SInt, a, b)}
	}
	panic(execError{"unsupported binary op " + op.String() + " at " + e.posOf(pos)})
}

func (e *Engine) assumeOrCheckPositive(s *State, b *Term, pos token.Pos) {
	if b.IsConst() && b.Val.Sign() > 0 {
		return
	}
	// division by a symbolic value: only positive divisors are modelled
	s.assume(Lt(Int64C(0), b))
	e.note("symbolic signed division: divisor assumed positive at " + e.posOf(pos))
}

// wrapUnsigned applies the modular wrap of an unsigned machine operation.  When interval reasoning
// over the path condition shows that the exact result already fits, the wrap is dropped and a
// `nowrap` obligation (0 <= t < 2^n) is emitted for the solver to confirm.
func (e *Engine) wrapUnsigned(s *State, t *Term, n uint) *Term {
	if e.curFn != nil && !e.inInit && len(s.stack) > 0 {
		bc := &boundCalc{atoms: atomBounds(s.pc), memo: map[*Term]*ival{}}
		iv := bc.of(t)
		if iv.lo != nil && iv.hi != nil && iv.lo.Sign() >= 0 && iv.hi.Cmp(bigPow2(n)) < 0 {
			if !e.probing {
				e.emit(s, "nowrap", "", And(Le(Int64C(0), t), Lt(t, IntC(bigPow2(n)))), token.NoPos, fmt.Sprintf("unsigned %d-bit operation does not wrap", n))
			} else {
				s.assume(And(Le(Int64C(0), t), Lt(t, IntC(bigPow2(n)))))
			}
			return t
		}
	}
	return Mod(t, IntC(bigPow2(n)))
}

func (e *Engine) nilTerm(v Value) *Term {
	if i, ok := v.(VIface); ok && i.NilSym != nil {
		return i.NilSym
	}
	if b, ok := isNilValue(v); ok {
		return BoolC(b)
	}
	if _, ok := v.(VOpaque); ok {
		return BoolC(false)
	}
	if _, ok := v.(VInt); ok { // frontend.Variable holding a value
		return BoolC(false)
	}
	panic(execError{fmt.Sprintf("nil comparison on %T", v)})
}

func (e *Engine) convert(s *State, v Value, from, to types.Type, pos token.Pos) Value {
	tb, ok := to.Underlying().(*types.Basic)
	if !ok {
		// e.g. []byte(string) — unsupported
		if _, ok := v.(VSlice); ok {
			return v
		}
		panic(execError{"unsupported conversion to " + to.String()})
	}
	switch x := v.(type) {
	case VSymFloat:
		if tb.Info()&types.IsFloat != 0 {
			return x
		}
		if tb.Info()&types.IsInteger != 0 {
			if u, n := isUnsigned(to); u {
				return VInt{Mod(x.T, IntC(bigPow2(n)))}
			}
			return VInt{x.T}
		}
	case VFloat:
		if tb.Info()&types.IsFloat != 0 {
			return x
		}
		if tb.Info()&types.IsInteger != 0 {
			bf := new(big.Float).SetFloat64(x.F)
			bi, _ := bf.Int(nil)
			if u, n := isUnsigned(to); u {
				bi = new(big.Int).Mod(bi, bigPow2(n))
			}
			return VInt{IntC(bi)}
		}
	case VInt:
		if tb.Info()&types.IsFloat != 0 {
			if x.T.IsConst() {
				f, _ := new(big.Float).SetInt(x.T.Val).Float64()
				return VFloat{f}
			}
			// an integer-valued float (exact while |value| < 2^53)
			e.note("symbolic int→float64 conversion treated as exact (integer-valued float, |value| < 2^53)")
			return VSymFloat{x.T}
		}
		if tb.Info()&types.IsString != 0 {
			panic(execError{"int→string conversion unsupported"})
		}
		if tb.Info()&types.IsInteger != 0 {
			if u, n := isUnsigned(to); u {
				if fu, fnb := isUnsigned(from); fu && fnb <= n {
					return x
				}
				return VInt{e.wrapUnsigned(s, x.T, n)}
			}
			// to signed
			lo, hi, _ := intRange(tb)
			if x.T.IsConst() {
				if x.T.Val.Cmp(lo) >= 0 && x.T.Val.Cmp(hi) < 0 {
					return x
				}
				m := new(big.Int).Mod(x.T.Val, new(big.Int).Mul(hi, big.NewInt(2)))
				if m.Cmp(hi) >= 0 {
					m.Sub(m, new(big.Int).Mul(hi, big.NewInt(2)))
				}
				return VInt{IntC(m)}
			}
			if fu, fnb := isUnsigned(from); fu {
				flo, fhi := bigZero, bigPow2(fnb)
				_ = flo
				if fhi.Cmp(hi) <= 0 {
					return x
				}
				two := new(big.Int).Mul(hi, big.NewInt(2))
				// when the path condition bounds the value below 2^(N-1) the conversion is the identity
				// (confirmed by a `nowrap` obligation)
				if e.curFn != nil && !e.inInit && len(s.stack) > 0 {
					bc := &boundCalc{atoms: atomBounds(s.pc), memo: map[*Term]*ival{}}
					iv := bc.of(x.T)
					if iv.lo != nil && iv.hi != nil && iv.lo.Sign() >= 0 && iv.hi.Cmp(hi) < 0 {
						goal := And(Le(Int64C(0), x.T), Lt(x.T, IntC(hi)))
						if !e.probing {
							e.emit(s, "nowrap", "", goal, pos, "unsigned to signed conversion keeps the value")
						} else {
							s.assume(goal)
						}
						return x
					}
				}
				return VInt{Ite(Lt(x.T, IntC(hi)), x.T, Sub(x.T, IntC(two)))}
			}
			// signed → signed: widening is the identity, same width too
			return x
		}
	case VStr:
		if tb.Info()&types.IsString != 0 {
			return x
		}
	}
	panic(execError{fmt.Sprintf("unsupported conversion %T → %s at %s", v, to, e.posOf(pos))})
}

func (e *Engine) sliceOp(s *State, f *Frame, x *ssa.Slice, probe *probeRec) Value {
	base := e.val(s, f, x.X)
	var lo, hi *Term
	if x.Low != nil {
		lo = asInt(e.val(s, f, x.Low))
	} else {
		lo = Int64C(0)
	}
	switch b := base.(type) {
	case VPtr: // pointer to array
		at := x.X.Type().Underlying().(*types.Pointer).Elem().Underlying().(*types.Array)
		n := Int64C(at.Len())
		if x.High != nil {
			hi = asInt(e.val(s, f, x.High))
		} else {
			hi = n
		}
		// convert the array object into a slice backing store view: slices of arrays share the object
		if len(b.Path) != 0 {
			panic(execError{"slicing an array nested in an object is unsupported"})
		}
		if arr, ok := s.heap[b.Obj].(VArr); ok {
			s.heap[b.Obj] = &Seq{Conc: arr.E}
		}
		e.sliceBounds(s, lo, hi, n, x.Pos(), probe)
		return VSlice{Obj: b.Obj, Off: lo, Len: Sub(hi, lo), Cap: Sub(n, lo)}
	case VSlice:
		if x.High != nil {
			hi = asInt(e.val(s, f, x.High))
		} else {
			hi = b.Len
		}
		e.sliceBounds(s, lo, hi, b.Cap, x.Pos(), probe)
		return VSlice{Obj: b.Obj, Pure: b.Pure, Off: Add(b.Off, lo), Len: Sub(hi, lo), Cap: Sub(b.Cap, lo)}
	case VStr:
		panic(execError{"string slicing unsupported"})
	}
	panic(execError{fmt.Sprintf("Slice on %T", base)})
}

func (e *Engine) sliceBounds(s *State, lo, hi, cp *Term, pos token.Pos, probe *probeRec) {
	cond := And(Le(Int64C(0), lo), Le(lo, hi), Le(hi, cp))
	if cond.IsTrue() {
		return
	}
	if cond.IsFalse() {
		panic(pathEnd{"slice bounds out of range at " + e.posOf(pos)})
	}
	if probe == nil && (e.mode == COMPLETE || (e.curC != nil && e.curC.Flags["nopanic"])) {
		e.emit(s, "index", "", cond, pos, "slice bounds in range")
	} else {
		s.assume(cond)
	}
}

func (e *Engine) makeInterface(s *State, f *Frame, x *ssa.MakeInterface) Value {
	v := e.val(s, f, x.X)
	xt := x.X.Type()
	// anything converted to frontend.Variable / interface{} that denotes a number keeps its integer value
	switch y := v.(type) {
	case VInt:
		return VIface{Dyn: xt, V: y}
	case VPtr:
		if namedPath(xt) == "*math/big.Int" {
			if y.Obj == nil {
				return VIface{Dyn: xt, V: VPtr{}}
			}
			val := asInt(e.load(s, y, x.Pos()))
			if e.curC != nil && e.curC.Flags["bigint-boxing"] {
				// option encoding of a possibly-nil *big.Int boxed in an interface: 2*value, or 1 for nil
				// (read back only through the contract functions bigval / nilbig)
				enc := Mul(Int64C(2), val)
				if y.Valid != nil {
					enc = Ite(y.Valid, enc, Int64C(1))
				}
				return VIface{Dyn: xt, V: VInt{enc}}
			}
			if y.Valid != nil {
				e.note("a possibly-nil *big.Int is boxed into an interface: only its value on success is tracked")
			}
			return VIface{Dyn: xt, V: VInt{val}}
		}
	case VBigRef:
		return VIface{Dyn: xt, V: VInt{y.T}}
	}
	return VIface{Dyn: xt, V: v}
}

func (e *Engine) typeAssert(s *State, f *Frame, x *ssa.TypeAssert) Value {
	v := e.val(s, f, x.X)
	at := namedPath(x.AssertedType)
	mkres := func(ok *Term, val Value) Value {
		if x.CommaOk {
			return VTuple{[]Value{val, VBool{ok}}}
		}
		if ok.IsFalse() {
			panic(pathEnd{"type assertion failed"})
		}
		if !ok.IsTrue() {
			s.assume(ok)
		}
		return val
	}
	if op, isOp := v.(VOpaque); isOp && op.Kind == "api" {
		info := op.Data.(*apiInfo)
		switch at {
		case "github.com/consensys/gnark/frontend.Rangechecker":
			return mkres(info.isRC, v)
		case "github.com/consensys/gnark/frontend.Committer":
			return mkres(info.isCommitter, v)
		case "github.com/wormhole-foundation/example-near-light-client/goldilocks.FrontendTyper":
			// gnark v0.9.1 builders expose FrontendType() frontendtype.Type, which does not
			// satisfy this interface (result type differs): the assertion always fails.
			e.note("FrontendTyper assertion: false for every gnark v0.9.1 builder (method result type differs)")
			return mkres(BoolC(false), VOpaque{Kind: "none"})
		}
		panic(execError{"type assertion on api to " + at})
	}
	if iv, ok := v.(VIface); ok {
		if iv.Dyn == nil && iv.NilSym == nil {
			return mkres(BoolC(false), e.zeroValue(x.AssertedType))
		}
		if iv.Dyn != nil {
			if _, isIface := x.AssertedType.Underlying().(*types.Interface); isIface {
				ok := types.Implements(iv.Dyn, x.AssertedType.Underlying().(*types.Interface))
				return mkres(BoolC(ok), v)
			}
			if types.Identical(iv.Dyn, x.AssertedType) {
				return mkres(BoolC(true), iv.V)
			}
			return mkres(BoolC(false), e.zeroValue(x.AssertedType))
		}
	}
	panic(execError{fmt.Sprintf("unsupported type assertion of %T to %s at %s", v, at, e.posOf(x.Pos()))})
}

func (e *Engine) lookupOp(s *State, f *Frame, x *ssa.Lookup) Value {
	m := e.val(s, f, x.X)
	mv, ok := m.(VMap)
	if !ok {
		panic(execError{"Lookup on non-map (string indexing unsupported)"})
	}
	elemT := x.X.Type().Underlying().(*types.Map).Elem()
	var content *MapVal
	if mv.Obj != nil {
		if c, ok := s.heap[mv.Obj].(*MapVal); ok {
			content = c
		} else if c, ok := e.globalVal[mv.Obj].(*MapVal); ok {
			content = c
		}
	}
	if content == nil {
		content = &MapVal{}
	}
	key := e.val(s, f, x.Index)
	if content.Opaque {
		a := &absCtx{e: e, s: s}
		v := a.abstractValue(elemT, uniqueName("maplookup"), nil)
		for _, fc := range a.facts {
			s.assume(fc)
		}
		okv := Fresh("mapok", SBool)
		if inv := e.mapInvFor(mv.Obj); inv != nil {
			c := &evalCtx{e: e, s: s, env: map[string]Value{inv.Params[0]: v}, pkg: f.fn.Pkg.Pkg}
			s.assume(Implies(okv, c.evalBool(inv.Body)))
			e.note("map " + inv.Name + ": every stored value satisfies the declared map invariant (checked at each update in the module)")
		}
		if x.CommaOk {
			return VTuple{[]Value{v, VBool{okv}}}
		}
		return v
	}
	// concrete-keyed map with possibly symbolic membership test by identity
	found := -1
	for i, k := range content.Keys {
		if valuesIdentical(k, key) {
			found = i
		}
	}
	var res Value
	okb := BoolC(found >= 0)
	if found >= 0 {
		res = content.Vals[found]
	} else {
		res = e.zeroValue(elemT)
	}
	if x.CommaOk {
		return VTuple{[]Value{res, VBool{okb}}}
	}
	return res
}

func (e *Engine) mapInvFor(o *Object) *Macro {
	if o == nil || e.cs.MapInvs == nil {
		return nil
	}
	return e.cs.MapInvs[strings.TrimSuffix(o.name, ".map")]
}

func valuesIdentical(a, b Value) bool {
	switch x := a.(type) {
	case VOpaque:
		y, ok := b.(VOpaque)
		return ok && x.Kind == y.Kind && x.ID == y.ID
	case VInt:
		y, ok := b.(VInt)
		return ok && x.T == y.T
	case VStr:
		y, ok := b.(VStr)
		return ok && x.T == y.T
	case VIface:
		y, ok := b.(VIface)
		return ok && x.V != nil && y.V != nil && valuesIdentical(x.V, y.V)
	}
	return false
}

// VSymFloat: a float64 known to hold the integer T exactly.
type VSymFloat struct{ T *Term }

type rangeIter struct {
	kind string // "map"
	keys []Value
	vals []Value
	pos  int
}

func (e *Engine) rangeInit(s *State, f *Frame, x *ssa.Range) Value {
	v := e.val(s, f, x.X)
	switch m := v.(type) {
	case VMap:
		var content *MapVal
		if m.Obj != nil {
			if c, ok := s.heap[m.Obj].(*MapVal); ok {
				content = c
			} else if c, ok := e.globalVal[m.Obj].(*MapVal); ok {
				content = c
			}
		}
		if content == nil {
			content = &MapVal{}
		}
		if content.Opaque {
			panic(execError{"range over symbolic map"})
		}
		keys, vals := content.Keys, content.Vals
		if mo, ok := s.stack[0].params["maporder"].(VInt); ok && mo.T.IsConst() && len(keys) > 0 {
			// the contract enumerates iteration orders through the logical variable `maporder`:
			// k < n: insertion order rotated by k (key k comes first, key k-1 last); k == n: reversed
			k, n := int(mo.T.Val.Int64()), len(keys)
			var nk, nv []Value
			if k >= n {
				for i := n - 1; i >= 0; i-- {
					nk, nv = append(nk, keys[i]), append(nv, vals[i])
				}
			} else {
				for i := 0; i < n; i++ {
					nk, nv = append(nk, keys[(k+i)%n]), append(nv, vals[(k+i)%n])
				}
			}
			keys, vals = nk, nv
			e.note("map iteration order: enumerated by the contract (`cases maporder`): every rotation of the insertion order and its reversal in the thorough tier")
		} else {
			e.note("map iteration order: executed in insertion order; order-independence is established separately where a property needs it")
		}
		return VOpaque{Kind: "rangeiter", Data: &rangeIter{kind: "map", keys: keys, vals: vals}}
	}
	panic(execError{fmt.Sprintf("range over %T", v)})
}

func (e *Engine) rangeNext(s *State, f *Frame, x *ssa.Next) Value {
	it := e.val(s, f, x.Iter).(VOpaque).Data.(*rangeIter)
	// iterator position is path state: copy-on-advance keyed in env
	pos := it.pos
	if pos >= len(it.keys) {
		tt := x.Type().(*types.Tuple)
		return VTuple{[]Value{VBool{BoolC(false)}, e.zeroValue(tt.At(1).Type()), e.zeroValue(tt.At(2).Type())}}
	}
	nit := &rangeIter{kind: it.kind, keys: it.keys, vals: it.vals, pos: pos + 1}
	f.env[x.Iter] = VOpaque{Kind: "rangeiter", Data: nit}
	return VTuple{[]Value{VBool{BoolC(true)}, it.keys[pos], it.vals[pos]}}
}

func (e *Engine) doReturn(s *State, f *Frame, res []Value, pos token.Pos, probe *probeRec) bool {
	if len(s.stack) == 1 {
		if probe == nil {
			e.atReturn(s, f, res, pos)
		}
		return false
	}
	if probe != nil && len(s.stack) == probe.depth {
		return false // return from inside the probed loop
	}
	// pop inlined frame
	s.stack = s.stack[:len(s.stack)-1]
	pf := s.top()
	var rv Value
	switch len(res) {
	case 0:
		rv = VTuple{}
	case 1:
		rv = res[0]
	default:
		rv = VTuple{res}
	}
	if f.call != nil {
		pf.env[f.call] = rv
	}
	pf.ip++
	return true
}

// feasibleSides decides whether the true / false side of a symbolic branch is satisfiable
// together with the path condition.  Answers are only used to *prune* (an infeasible side
// is never executed); an inconclusive answer keeps both sides.
func (e *Engine) feasibleSides(s *State, f *Frame, c *Term) (bool, bool) {
	bc := &boundCalc{atoms: atomBounds(s.pc), memo: map[*Term]*ival{}}
	decide := func(t *Term) (known bool, val bool) {
		switch t.Op {
		case "<", "<=":
			a, b := bc.of(t.Args[0]), bc.of(t.Args[1])
			strict := t.Op == "<"
			if a.hi != nil && b.lo != nil {
				if cmp := a.hi.Cmp(b.lo); cmp < 0 || (!strict && cmp == 0) {
					return true, true
				}
			}
			if a.lo != nil && b.hi != nil {
				if cmp := a.lo.Cmp(b.hi); cmp > 0 || (strict && cmp == 0) {
					return true, false
				}
			}
		case "not":
			k, v := false, false
			func() { k, v = decideRec(bc, t.Args[0]) }()
			if k {
				return true, !v
			}
		}
		return false, false
	}
	if k, v := decide(c); k {
		return v, !v
	}
	// solver-based pruning only inside revisited blocks (unrolled loops with symbolic bounds)
	if f.visits[f.blk] < 3 || e.pruneCalls > 400 {
		return true, true
	}
	e.pruneCalls++
	ft := e.quickSat(append(append([]*Term(nil), s.pc...), c))
	ff := e.quickSat(append(append([]*Term(nil), s.pc...), Not(c)))
	if !ft && !ff {
		return true, true // contradictory path: let it run out
	}
	return ft, ff
}

func decideRec(bc *boundCalc, t *Term) (bool, bool) {
	switch t.Op {
	case "<", "<=":
		a, b := bc.of(t.Args[0]), bc.of(t.Args[1])
		strict := t.Op == "<"
		if a.hi != nil && b.lo != nil {
			if cmp := a.hi.Cmp(b.lo); cmp < 0 || (!strict && cmp == 0) {
				return true, true
			}
		}
		if a.lo != nil && b.hi != nil {
			if cmp := a.lo.Cmp(b.hi); cmp > 0 || (strict && cmp == 0) {
				return true, false
			}
		}
	}
	return false, false
}

// quickSat: false only if a solver proves the conjunction unsatisfiable within 3 s.
func (e *Engine) quickSat(hyps []*Term) bool {
	dir, err := os.MkdirTemp("", "govc-prune")
	if err != nil {
		return true
	}
	defer os.RemoveAll(dir)
	file := filepath.Join(dir, "q.smt2")
	os.WriteFile(file, []byte(RenderVC(hyps, nil, false)), 0o644)
	t0 := time.Now()
	r := solveRace(file, 3, []string{"z3-new", "cvc5"})
	if os.Getenv("GOVC_DEBUG") != "" {
		fmt.Fprintf(os.Stderr, "quickSat %s %.2fs %d hyps\n", r.status, time.Since(t0).Seconds(), len(hyps))
	}
	return r.status != "unsat"
}

// quickSides: feasibility of pc∧c and of pc∧¬c, decided concurrently.  As soon as one side is refuted the
// other is taken as feasible without waiting for its (often slow) model search.
func (e *Engine) quickSides(pc []*Term, c *Term) (bool, bool) {
	type ans struct {
		side int
		sat  bool
	}
	ch := make(chan ans, 2)
	go func() { ch <- ans{0, e.quickSat(append(append([]*Term(nil), pc...), c))} }()
	go func() { ch <- ans{1, e.quickSat(append(append([]*Term(nil), pc...), Not(c)))} }()
	feas := [2]bool{true, true}
	for i := 0; i < 2; i++ {
		a := <-ch
		feas[a.side] = a.sat
		if !a.sat {
			return feas[0], feas[1] // the other side keeps its default (feasible)
		}
	}
	return feas[0], feas[1]
}

// shiftCount: Go panics on a negative shift count; counts above 256 are outside the pow2 table.
func (e *Engine) shiftCount(s *State, b *Term, pos token.Pos) {
	cond := And(Le(Int64C(0), b), Le(b, Int64C(256)))
	if cond.IsTrue() {
		return
	}
	if cond.IsFalse() {
		panic(pathEnd{"shift count out of range at " + e.posOf(pos)})
	}
	if e.mode == COMPLETE || (e.curC != nil && e.curC.Flags["nopanic"]) {
		if !e.inInit {
			e.emit(s, "shift", "", cond, pos, "shift count in [0,256]")
			return
		}
	}
	s.assume(cond)
}
