package main

// Assumed contracts of dependencies (gnark frontend API, math/big, gnark-crypto
// goldilocks.Element, math, strconv, ...).  Everything here is the trusted base of §2.7.

import (
	"regexp"
	"fmt"
	"go/ast"
	"go/token"
	"go/types"
	"math"
	"math/big"
	"math/bits"
	"strings"

	"golang.org/x/tools/go/ssa"
)

func RT() *Term { return IntC(RConst) }
func PT() *Term { return IntC(PConst) }

// fieldVal reduces a frontend.Variable operand to its canonical representative in [0,R).
func (e *Engine) fieldVal(v Value) *Term {
	switch x := v.(type) {
	case VInt:
		return e.modR(x.T)
	case VIface:
		if x.V != nil {
			return e.fieldVal(x.V)
		}
		panic(execError{"nil frontend.Variable used in an API call"})
	case VBigRef:
		return e.modR(x.T)
	case VStr:
		panic(execError{"string-valued frontend.Variable in API call"})
	}
	panic(execError{fmt.Sprintf("frontend.Variable operand of kind %T", v)})
}

func (e *Engine) modR(t *Term) *Term {
	if t.IsConst() {
		return Mod(t, RT())
	}
	if isFieldCanonical(t) {
		return t
	}
	return Mod(t, RT())
}

// isFieldCanonical: terms known by construction to lie in [0,R).
func isFieldCanonical(t *Term) bool {
	if t.Op == "mod" && t.Args[1].IsConst() && t.Args[1].Val.Cmp(RConst) <= 0 && t.Args[1].Val.Sign() > 0 {
		return true
	}
	if t.Op == "var" && fieldVars[t.Name] {
		return true
	}
	if t.Op == "ite" {
		return isFieldCanonical(t.Args[1]) && isFieldCanonical(t.Args[2])
	}
	if t.IsConst() {
		return t.Val.Sign() >= 0 && t.Val.Cmp(RConst) < 0
	}
	return false
}

var fieldVars = map[string]bool{}

func (e *Engine) freshField(s *State, name string) *Term {
	v := Fresh(name, SInt)
	fieldVars[v.Name] = true
	s.assume(Le(Int64C(0), v))
	s.assume(Lt(v, RT()))
	return v
}

func fv(t *Term) Value { return VInt{t} }

func (e *Engine) variadic(s *State, v Value) []Value {
	sl, ok := v.(VSlice)
	if !ok {
		return nil
	}
	if sl.Obj == nil && sl.Pure == nil {
		return nil
	}
	if !sl.Len.IsConst() {
		// a length pinned by the path condition (e.g. after `if len(bits) != 4 { panic }`)
		if c := pinnedConst(s, sl.Len); c != nil {
			sl.Len = c
		} else {
			panic(execError{"variadic API argument list with symbolic length"})
		}
	}
	var out []Value
	for i := int64(0); i < sl.Len.Val.Int64(); i++ {
		out = append(out, e.sliceAt(s, sl, Int64C(i)))
	}
	return out
}

// pinnedConst finds an equation  t = c  (c constant) among the path facts.
func pinnedConst(s *State, t *Term) *Term {
	var look func(f *Term) *Term
	look = func(f *Term) *Term {
		switch f.Op {
		case "and":
			for _, a := range f.Args {
				if c := look(a); c != nil {
					return c
				}
			}
		case "=":
			if f.Args[0] == t && f.Args[1].IsConst() {
				return f.Args[1]
			}
			if f.Args[1] == t && f.Args[0].IsConst() {
				return f.Args[0]
			}
		case "not":
			if g := f.Args[0]; g.Op == "not" {
				return look(g.Args[0])
			}
		}
		return nil
	}
	for _, f := range s.pc {
		if c := look(f); c != nil {
			return c
		}
	}
	return nil
}

// constraint: assume (SOUND) or assert (COMPLETE) an emitted circuit constraint.
func (e *Engine) constraint(s *State, f *Frame, in ssa.Instruction, kind string, t *Term, src string, probe *probeRec) {
	if e.mode == COMPLETE {
		if probe == nil {
			site := e.callSiteName(f, in, calleeKeyOf(in.(ssa.CallInstruction).Common()))
			e.emit(s, "assert", site, t, in.Pos(), src)
		} else {
			s.assume(t)
		}
		return
	}
	s.assume(t)
}

func (e *Engine) invoke(s *State, f *Frame, x *ssa.Call, recv Value, m *types.Func, args []Value, probe *probeRec) (Value, bool) {
	if iv, ok := recv.(VIface); ok && iv.Dyn != nil {
		// concrete dynamic type: resolve the method
		fn := e.prog.LookupMethod(iv.Dyn, m.Pkg(), m.Name())
		if fn == nil {
			panic(execError{"cannot resolve method " + m.Name() + " on " + iv.Dyn.String()})
		}
		cargs := append([]Value{iv.V}, args...)
		pushed := e.callFunctionPushed(s, f, x, fn, cargs, probe)
		return nil, pushed
	}
	_, isIface := recv.(VIface)
	if op, isOp := recv.(VOpaque); isOp && strings.HasPrefix(op.Kind, "iface:") {
		isIface = true
	}
	if isIface {
		// receiver of unknown dynamic type: the contract of the interface method, if one is declared
		if nt, ok := types.Unalias(x.Common().Value.Type()).(*types.Named); ok && nt.Obj().Pkg() != nil {
			key := nt.Obj().Pkg().Name() + "." + nt.Obj().Name() + "." + m.Name()
			if ic := e.l.iface[key]; ic != nil {
				e.note("dynamic call " + key + ": the interface-method contract is used (every implementation under contract is checked to restate its postconditions)")
				e.ifaceUsed[key] = true
				if e.mode == COMPLETE {
					e.note("dynamic call " + key + " in COMPLETE mode: the completeness premises (complete_requires / honest) of the implementations are not checked at this call - each implementation is verified under its own premises, that the circuit description meets them is assumed")
				}
				r := e.applyContract(s, f, x, ic.carrier, ic.ct, append([]Value{recv}, args...), probe)
				return r, false
			}
		}
	}
	op, ok := recv.(VOpaque)
	if !ok {
		panic(execError{fmt.Sprintf("invoke %s on %T at %s", m.Name(), recv, e.posOf(x.Pos()))})
	}
	switch op.Kind {
	case "api":
		return e.apiCall(s, f, x, op, m.Name(), args, probe), false
	case "compiler":
		return e.compilerCall(s, f, x, op, m.Name(), args, probe), false
	case "rangechecker":
		if m.Name() == "Check" {
			e.rangecheckerCheck(s, f, x, op.Data.(*Term), args[0], asInt(args[1]), probe)
			return VTuple{}, false
		}
	}
	panic(execError{fmt.Sprintf("unmodelled interface call %s.%s at %s", op.Kind, m.Name(), e.posOf(x.Pos()))})
}

// callFunctionPushed calls a resolved function; it always either pushes a frame or stores the result.
func (e *Engine) callFunctionPushed(s *State, f *Frame, x *ssa.Call, fn *ssa.Function, args []Value, probe *probeRec) bool {
	before := len(s.stack)
	e.callFunction(s, f, x, fn, args, nil, probe)
	if len(s.stack) == before {
		// result stored and ip advanced by callFunction: undo the advance, caller advances
		return true
	}
	return true
}

func (e *Engine) apiCall(s *State, f *Frame, x *ssa.Call, api VOpaque, name string, args []Value, probe *probeRec) Value {
	e.note("gnark frontend.API." + name + ": field semantics of gnark v0.9.1 assumed")
	if name != "Compiler" {
		e.checkAccumulatorReuse(s, f, x, name, args, probe)
	}
	switch name {
	case "Compiler":
		return VOpaque{Kind: "compiler", ID: api.ID, Data: api.Data}
	case "Add":
		t := Add(e.fieldVal(args[0]), e.fieldVal(args[1]))
		for _, r := range e.variadic(s, args[2]) {
			t = Add(t, e.fieldVal(r))
		}
		return fv(e.modRsmart(s, t))
	case "Sub":
		t := Sub(e.fieldVal(args[0]), e.fieldVal(args[1]))
		for _, r := range e.variadic(s, args[2]) {
			t = Sub(t, e.fieldVal(r))
		}
		return fv(e.modRsmart(s, t))
	case "Neg":
		return fv(e.modRsmart(s, Neg(e.fieldVal(args[0]))))
	case "Mul":
		t := Mul(e.fieldVal(args[0]), e.fieldVal(args[1]))
		for _, r := range e.variadic(s, args[2]) {
			t = Mul(e.modRsmart(s, t), e.fieldVal(r))
		}
		return fv(e.modRsmart(s, t))
	case "MulAcc":
		// a + b*c
		t := Add(e.fieldVal(args[0]), Mul(e.fieldVal(args[1]), e.fieldVal(args[2])))
		return fv(e.modRsmart(s, t))
	case "IsZero":
		return fv(Ite(Eq(e.fieldVal(args[0]), Int64C(0)), Int64C(1), Int64C(0)))
	case "Select":
		b := e.fieldVal(args[0])
		e.constraint(s, f, x, "bool", Or(Eq(b, Int64C(0)), Eq(b, Int64C(1))), "Select condition is boolean", probe)
		return fv(Ite(Eq(b, Int64C(1)), e.fieldVal(args[1]), e.fieldVal(args[2])))
	case "Lookup2":
		b0 := e.fieldVal(args[0])
		b1 := e.fieldVal(args[1])
		e.constraint(s, f, x, "bool", And(Or(Eq(b0, Int64C(0)), Eq(b0, Int64C(1))), Or(Eq(b1, Int64C(0)), Eq(b1, Int64C(1)))), "Lookup2 bits are boolean", probe)
		i0, i1, i2, i3 := e.fieldVal(args[2]), e.fieldVal(args[3]), e.fieldVal(args[4]), e.fieldVal(args[5])
		return fv(Ite(Eq(b1, Int64C(1)), Ite(Eq(b0, Int64C(1)), i3, i2), Ite(Eq(b0, Int64C(1)), i1, i0)))
	case "AssertIsEqual":
		a, b := e.fieldVal(args[0]), e.fieldVal(args[1])
		e.constraint(s, f, x, "eq", Eq(a, b), "AssertIsEqual", probe)
		return VTuple{}
	case "AssertIsBoolean":
		b := e.fieldVal(args[0])
		e.constraint(s, f, x, "bool", Or(Eq(b, Int64C(0)), Eq(b, Int64C(1))), "AssertIsBoolean", probe)
		return VTuple{}
	case "ToBinary":
		n := 254
		if vs := e.variadic(s, args[1]); len(vs) > 0 {
			nt := asInt(vs[0])
			if !nt.IsConst() {
				panic(execError{"ToBinary with symbolic width"})
			}
			n = int(nt.Val.Int64())
		}
		return e.toBinary(s, f, x, e.fieldVal(args[0]), n, probe)
	case "FromBinary":
		bitsv := e.variadic(s, args[0])
		sum := Int64C(0)
		for i, b := range bitsv {
			bt := e.fieldVal(b)
			e.constraint(s, f, x, "bool", Or(Eq(bt, Int64C(0)), Eq(bt, Int64C(1))), "FromBinary bit is boolean", probe)
			sum = Add(sum, Mul(bt, IntC(bigPow2(uint(i)))))
		}
		return fv(e.modRsmart(s, sum))
	case "Println":
		return VTuple{}
	}
	panic(execError{"unmodelled frontend.API method " + name})
}

// modRsmart keeps `mod R` unless the term is a constant.
func (e *Engine) modRsmart(s *State, t *Term) *Term {
	return Mod(t, RT())
}

// toBinary: n fresh boolean wires with Σ b_i 2^i = x over the integers (n < 254).
func (e *Engine) toBinary(s *State, f *Frame, x *ssa.Call, v *Term, n int, probe *probeRec) Value {
	return e.toBinaryOpt(s, f, x, v, n, false, probe)
}

// toBinaryOpt: with omitModCheck (bits.OmitModulusCheck) a full-width decomposition is only
// constrained modulo the field order: Σ b_i 2^i ≡ x (mod R), booleans b_i.
func (e *Engine) toBinaryOpt(s *State, f *Frame, x *ssa.Call, v *Term, n int, omitModCheck bool, probe *probeRec) Value {
	if n <= 0 || n > 254 {
		panic(execError{"ToBinary width out of range"})
	}
	obj := newObject("bits@"+e.posOf(x.Pos()), nil)
	el := make([]Value, n)
	if e.mode == COMPLETE {
		// honest bits: b_i = (v div 2^i) mod 2; constraint: v < 2^n
		sum := Int64C(0)
		for i := 0; i < n; i++ {
			b := Mod(Div(v, IntC(bigPow2(uint(i)))), Int64C(2))
			el[i] = VInt{b}
			sum = Add(sum, Mul(b, IntC(bigPow2(uint(i)))))
		}
		e.constraint(s, f, x, "range", Lt(v, IntC(bigPow2(uint(n)))), fmt.Sprintf("ToBinary(%d): value fits", n), probe)
		// binary expansion: for 0 <= v < 2^n the honest bits recompose to v (a fact about integers)
		s.assume(Implies(And(Le(Int64C(0), v), Lt(v, IntC(bigPow2(uint(n))))), Eq(v, sum)))
	} else {
		sum := Int64C(0)
		for i := 0; i < n; i++ {
			b := Fresh("bit", SInt)
			fieldVars[b.Name] = true
			s.assume(Or(Eq(b, Int64C(0)), Eq(b, Int64C(1))))
			el[i] = VInt{b}
			sum = Add(sum, Mul(b, IntC(bigPow2(uint(i)))))
		}
		if omitModCheck && n == 254 {
			s.assume(Eq(v, Mod(sum, RT())))
			s.heap[obj] = &Seq{Conc: el}
			return VSlice{Obj: obj, Off: Int64C(0), Len: Int64C(int64(n)), Cap: Int64C(int64(n))}
		}
		s.assume(Eq(v, sum))
		if n == 254 {
			s.assume(Lt(sum, RT()))
		}
		// derived facts, stated explicitly to spare the solver the 2^n case split: the value is below 2^n
		// and (uniqueness of the binary expansion) bit i is (v div 2^i) mod 2
		s.assume(Lt(v, IntC(bigPow2(uint(n)))))
		if n <= 64 {
			for i := 0; i < n; i++ {
				s.assume(Eq(el[i].(VInt).T, Mod(Div(v, IntC(bigPow2(uint(i)))), Int64C(2))))
			}
		}
	}
	s.heap[obj] = &Seq{Conc: el}
	return VSlice{Obj: obj, Off: Int64C(0), Len: Int64C(int64(n)), Cap: Int64C(int64(n))}
}

func (e *Engine) compilerCall(s *State, f *Frame, x *ssa.Call, comp VOpaque, name string, args []Value, probe *probeRec) Value {
	switch name {
	case "NewHint":
		hf, ok := args[0].(VFunc)
		if !ok || hf.Fn == nil {
			panic(execError{"NewHint with non-static hint function"})
		}
		nt := asInt(args[1])
		if !nt.IsConst() {
			panic(execError{"NewHint with symbolic output count"})
		}
		n := int(nt.Val.Int64())
		ins := e.variadic(s, args[2])
		var inT []*Term
		for _, v := range ins {
			inT = append(inT, e.fieldVal(v))
		}
		outs := e.hintOutputs(s, f, x, hf.Fn, n, inT, probe)
		obj := newObject("hint@"+e.posOf(x.Pos()), nil)
		el := make([]Value, n)
		for i := range el {
			el[i] = VInt{outs[i]}
		}
		s.heap[obj] = &Seq{Conc: el}
		sl := VSlice{Obj: obj, Off: Int64C(0), Len: Int64C(int64(n)), Cap: Int64C(int64(n))}
		return VTuple{[]Value{sl, VIface{}}}
	case "Defer":
		cb, ok := args[0].(VFunc)
		name := "?"
		if ok && cb.Fn != nil {
			name = cb.Fn.Name()
			if cb.Fn.Synthetic != "" && len(cb.Fn.Blocks) > 0 {
				// bound method closure: find the wrapped method
				for _, b := range cb.Fn.Blocks {
					for _, in := range b.Instrs {
						if c, ok := in.(*ssa.Call); ok {
							if sc := c.Common().StaticCallee(); sc != nil {
								name = funcKey(sc)
							}
						}
					}
				}
			}
		}
		var recvObj *Object
		if ok && len(cb.Free) > 0 {
			if p, ok := cb.Free[0].(VPtr); ok {
				recvObj = p.Obj
			}
		}
		e.deferred = append(e.deferred, deferredCall{name: name, recv: recvObj, pc: append([]*Term(nil), s.pc...)})
		s.ghostDefers = append(s.ghostDefers, name)
		e.note("Compiler.Defer: the callback runs once after Define and its constraints belong to the system")
		if recvObj != nil {
			s.assume(App("deferred$"+name, SBool, Int64C(int64(recvObj.id))))
		}
		return VTuple{}
	case "FieldBitLen":
		e.note("Compiler.FieldBitLen(): 254 (BN254 scalar field)")
		return VInt{Int64C(254)}
	case "Field":
		bo := newObject("field.big", nil)
		s.heap[bo] = VInt{RT()}
		return VPtr{Obj: bo}
	}
	panic(execError{"unmodelled frontend.Compiler method " + name})
}

type deferredCall struct {
	name string
	recv *Object
	pc   []*Term
}

type hintSite struct {
	Fn   string
	In   []*Term
	Out  []*Term
	Func string
	Pos  string
}

func (e *Engine) hintOutputs(s *State, f *Frame, x *ssa.Call, hint *ssa.Function, n int, ins []*Term, probe *probeRec) []*Term {
	outs := make([]*Term, n)
	if e.mode != COMPLETE {
		e.note("Compiler.NewHint: outputs are unconstrained field elements (malicious prover)")
		for i := range outs {
			outs[i] = e.freshField(s, "hint."+hint.Name())
		}
		s.hints = append(s.hints, hintSite{Fn: hint.Name(), In: ins, Out: outs, Func: funcKey(f.fn), Pos: e.posOf(x.Pos())})
		return outs
	}
	// COMPLETE: honest values given by the hint function's own (verified) contract
	ct := e.bound[hint]
	if ct == nil {
		panic(execError{"hint function " + hint.Name() + " has no contract (needed for completeness)"})
	}
	e.funcsUsed[funcKey(hint)] = true
	// build the call: inputs []*big.Int, results []*big.Int
	mkBigSlice := func(ts []*Term, nm string) VSlice {
		el := make([]Value, len(ts))
		for i, t := range ts {
			o := newObject(nm+".big", nil)
			s.heap[o] = VInt{t}
			el[i] = VPtr{Obj: o}
		}
		obj := newObject(nm, nil)
		s.heap[obj] = &Seq{Conc: el}
		return VSlice{Obj: obj, Off: Int64C(0), Len: Int64C(int64(len(ts))), Cap: Int64C(int64(len(ts)))}
	}
	inSl := mkBigSlice(ins, "hint.inputs")
	res := make([]*Term, n)
	for i := range res {
		res[i] = Fresh("honest."+hint.Name(), SInt)
	}
	outSl := mkBigSlice(res, "hint.results")
	env := map[string]Value{}
	ps := hint.Params
	if len(ps) != 3 {
		panic(execError{"hint function with unexpected signature"})
	}
	fo := newObject("hint.field", nil)
	s.heap[fo] = VInt{RT()}
	e.bindParams(hint, []Value{VPtr{Obj: fo}, inSl, outSl}, "", env)
	names := e.resultNames(ct, 1)
	c := &evalCtx{e: e, s: s, env: env, pkg: hint.Pkg.Pkg}
	site := e.callSiteName(f, x, "invoke.NewHint")
	for k, cl := range ct.Requires {
		t := c.evalBool(cl.Expr)
		if probe == nil {
			e.emit(s, "hint-pre", fmt.Sprintf("%s.%s.req%d", site, hint.Name(), k), t, x.Pos(), cl.Src)
		} else {
			s.assume(t)
		}
	}
	env[names[0]] = VIface{}
	for _, cl := range ct.Ensures {
		s.assume(c.evalBool(cl.Expr))
	}
	for i := range outs {
		// gnark reduces hint outputs into the field
		outs[i] = Mod(res[i], RT())
	}
	return outs
}

// rangecheckerCheck models frontend.Rangechecker.Check on an opaque checker whose kind is a term:
// 0 native (exact), 1 gnark commit checker (exact only for widths aligned to its base width),
// 2 bit decomposition.
func (e *Engine) rangecheckerCheck(s *State, f *Frame, x *ssa.Call, kind *Term, v Value, nb *Term, probe *probeRec) {
	val := e.fieldVal(v)
	exact := Lt(val, appSimplify("pow2", SInt, []*Term{nb}))
	if e.mode == COMPLETE {
		e.constraint(s, f, x, "range", exact, "Rangechecker.Check: value fits", probe)
		return
	}
	e.note("frontend.Rangechecker.Check (native): v < 2^bits assumed exact")
	e.note("gnark commit range checker: v < 2^(ceil(bits/16)*16) with base width 16 (exact iff bits % 16 == 0; GHSA-rjjm-x32p-m3f7)")
	sixteen := Int64C(16)
	aligned := Mul(Div(Add(nb, Int64C(15)), sixteen), sixteen)
	loose := Lt(val, appSimplify("pow2", SInt, []*Term{aligned}))
	s.assume(Implies(Eq(kind, Int64C(0)), exact))
	s.assume(Implies(Eq(kind, Int64C(1)), loose))
	s.assume(Implies(Eq(kind, Int64C(2)), exact))
}

// ---------------------------------------------------------------------------------
// external static functions

func (e *Engine) bigOf(s *State, v Value) *Term {
	switch x := v.(type) {
	case VPtr:
		if x.Obj == nil {
			panic(pathEnd{"nil *big.Int"})
		}
		return asInt(e.load(s, x, token.NoPos))
	case VBigRef:
		return x.T
	case VInt:
		return x.T
	}
	panic(execError{fmt.Sprintf("big.Int operand %T", v)})
}

func (e *Engine) setBig(s *State, recv Value, t *Term, probe *probeRec) Value {
	p, ok := recv.(VPtr)
	if !ok || p.Obj == nil {
		panic(execError{"big.Int receiver is not an addressable object"})
	}
	e.recordWrite(s, probe, p)
	e.store(s, p, VInt{t}, token.NoPos)
	return p
}

func (e *Engine) externalModel(s *State, f *Frame, x *ssa.Call, name string, callee *ssa.Function, args []Value, probe *probeRec) (Value, bool) {
	if callee.Name() == "init" && callee.Signature.Recv() == nil && callee.Signature.Params().Len() == 0 && !inModule(callee) {
		return VTuple{}, true // initialisers of dependencies
	}
	if callee.Name() == "init" && inModule(callee) && callee != e.curFn && callee.Synthetic != "" {
		// initialiser of another module package: evaluated on demand
		e.ensurePkgInit(callee.Pkg)
		return VTuple{}, true
	}
	switch name {
	// ---- math/big
	case "(*math/big.Int).Mul":
		e.note("math/big: mathematical integer semantics assumed")
		return e.setBig(s, args[0], Mul(e.bigOf(s, args[1]), e.bigOf(s, args[2])), probe), true
	case "(*math/big.Int).Add":
		return e.setBig(s, args[0], Add(e.bigOf(s, args[1]), e.bigOf(s, args[2])), probe), true
	case "(*math/big.Int).Sub":
		return e.setBig(s, args[0], Sub(e.bigOf(s, args[1]), e.bigOf(s, args[2])), probe), true
	case "(*math/big.Int).Div", "(*math/big.Int).Mod":
		// Euclidean division/modulus (math/big documents Div/Mod as Euclidean)
		a, b := e.bigOf(s, args[1]), e.bigOf(s, args[2])
		e.divisorNonZero(s, b)
		if strings.HasSuffix(name, "Div") {
			return e.setBig(s, args[0], Div(a, b), probe), true
		}
		return e.setBig(s, args[0], Mod(a, b), probe), true
	case "(*math/big.Int).Quo", "(*math/big.Int).Rem":
		// truncated; equal to Euclidean for non-negative dividend and positive divisor
		a, b := e.bigOf(s, args[1]), e.bigOf(s, args[2])
		e.divisorNonZero(s, b)
		var r *Term
		if strings.HasSuffix(name, "Quo") {
			r = Ite(Le(Int64C(0), a), Div(a, b), Neg(Div(Neg(a), b)))
			if b.IsConst() && b.Val.Sign() < 0 {
				panic(execError{"big.Quo by negative constant"})
			}
		} else {
			r = Ite(Le(Int64C(0), a), Mod(a, b), Neg(Mod(Neg(a), b)))
		}
		if !(b.IsConst() && b.Val.Sign() > 0) {
			s.assume(Lt(Int64C(0), b))
			e.note("big.Quo/Rem: divisor assumed positive")
		}
		return e.setBig(s, args[0], r, probe), true
	case "(*math/big.Int).SetString":
		str, ok := args[1].(VStr)
		base := asInt(args[2])
		if ok && str.T.Op == "sconst" && base.IsConst() {
			v, good := new(big.Int).SetString(str.T.Name, int(base.Val.Int64()))
			if !good {
				return VTuple{[]Value{VPtr{}, VBool{BoolC(false)}}}, true
			}
			return VTuple{[]Value{e.setBig(s, args[0], IntC(v), probe), VBool{BoolC(true)}}}, true
		}
		// symbolic string: value = str2int-like uninterpreted function of the string, success symbolic
		okb := Fresh("setstring.ok", SBool)
		var strT *Term
		if ok {
			strT = str.T
		} else {
			strT = Fresh("str", SStr)
		}
		valid0 := App("isDecimal", SBool, strT)
		// on failure math/big leaves the receiver's value undefined
		val := Ite(valid0, App("bigOfDecimal", SInt, strT), Fresh("setstring.undefined", SInt))
		r := e.setBig(s, args[0], val, probe)
		_ = okb
		e.note("big.Int.SetString on a symbolic string: value is bigOfDecimal(s); nil on malformed input")
		valid := App("isDecimal", SBool, strT)
		return VTuple{[]Value{mergeNilPtr(valid, r), VBool{valid}}}, true
	case "(*math/big.Int).Set":
		return e.setBig(s, args[0], e.bigOf(s, args[1]), probe), true
	case "(*math/big.Int).SetUint64", "(*math/big.Int).SetInt64":
		return e.setBig(s, args[0], asInt(args[1]), probe), true
	case "(*math/big.Int).Cmp":
		a, b := e.bigOf(s, args[0]), e.bigOf(s, args[1])
		return VInt{Ite(Lt(a, b), Int64C(-1), Ite(Eq(a, b), Int64C(0), Int64C(1)))}, true
	case "(*math/big.Int).Sign":
		a := e.bigOf(s, args[0])
		return VInt{Ite(Lt(a, Int64C(0)), Int64C(-1), Ite(Eq(a, Int64C(0)), Int64C(0), Int64C(1)))}, true
	case "(*math/big.Int).Uint64":
		a := e.bigOf(s, args[0])
		// low 64 bits of |a|; for 0 <= a < 2^64 the value itself
		return VInt{Mod(Ite(Le(Int64C(0), a), a, Neg(a)), IntC(bigPow2(64)))}, true
	case "(*math/big.Int).Int64":
		a := e.bigOf(s, args[0])
		if a.IsConst() && a.Val.IsInt64() {
			return VInt{a}, true
		}
		m := Mod(a, IntC(bigPow2(64)))
		return VInt{Ite(Lt(m, IntC(bigPow2(63))), m, Sub(m, IntC(bigPow2(64))))}, true
	case "(*math/big.Int).String":
		return VStr{Fresh("bigstr", SStr)}, true
	case "(*math/big.Int).Exp":
		a, b := e.bigOf(s, args[1]), e.bigOf(s, args[2])
		if a.IsConst() && b.IsConst() {
			var m *big.Int
			if p, ok := args[3].(VPtr); ok && p.Obj != nil {
				mt := e.bigOf(s, args[3])
				if mt.IsConst() {
					m = mt.Val
				}
			}
			return e.setBig(s, args[0], IntC(new(big.Int).Exp(a.Val, b.Val, m)), probe), true
		}
		panic(execError{"big.Exp on symbolic operands"})
	case "(*math/big.Int).Lsh":
		a, k := e.bigOf(s, args[1]), asInt(args[2])
		return e.setBig(s, args[0], Mul(a, appSimplify("pow2", SInt, []*Term{k})), probe), true
	case "math/big.NewInt":
		o := newObject("big.NewInt", nil)
		s.heap[o] = VInt{asInt(args[0])}
		return VPtr{Obj: o}, true
	// ---- gnark-crypto goldilocks.Element (canonical value in [0,P))
	case "github.com/consensys/gnark-crypto/field/goldilocks.NewElement":
		e.note("gnark-crypto goldilocks.Element: canonical value in [0,p), field semantics assumed")
		return VInt{Mod(asInt(args[0]), PT())}, true
	case "(*github.com/consensys/gnark-crypto/field/goldilocks.Element).Uint64":
		return VInt{e.bigOf(s, args[0])}, true
	case "(*github.com/consensys/gnark-crypto/field/goldilocks.Element).Mul":
		return e.setBig(s, args[0], Mod(Mul(e.bigOf(s, args[1]), e.bigOf(s, args[2])), PT()), probe), true
	case "(*github.com/consensys/gnark-crypto/field/goldilocks.Element).Square":
		a := e.bigOf(s, args[1])
		return e.setBig(s, args[0], Mod(Mul(a, a), PT()), probe), true
	case "(*github.com/consensys/gnark-crypto/field/goldilocks.Element).Add":
		return e.setBig(s, args[0], Mod(Add(e.bigOf(s, args[1]), e.bigOf(s, args[2])), PT()), probe), true
	case "(*github.com/consensys/gnark-crypto/field/goldilocks.Element).Sub":
		return e.setBig(s, args[0], Mod(Sub(e.bigOf(s, args[1]), e.bigOf(s, args[2])), PT()), probe), true
	case "(*github.com/consensys/gnark-crypto/field/goldilocks.Element).SetUint64":
		return e.setBig(s, args[0], Mod(asInt(args[1]), PT()), probe), true
	case "(*github.com/consensys/gnark-crypto/field/goldilocks.Element).Set":
		return e.setBig(s, args[0], e.bigOf(s, args[1]), probe), true
	case "(*github.com/consensys/gnark-crypto/field/goldilocks.Element).Inverse":
		a := e.bigOf(s, args[1])
		var r *Term
		if a.IsConst() {
			if a.Val.Sign() == 0 {
				r = Int64C(0)
			} else {
				r = IntC(new(big.Int).ModInverse(a.Val, PConst))
			}
		} else {
			r = App("gl_inv", SInt, a)
		}
		return e.setBig(s, args[0], r, probe), true
	case "(*github.com/consensys/gnark-crypto/field/goldilocks.Element).Exp":
		a, k := e.bigOf(s, args[1]), e.bigOf(s, args[2])
		if a.IsConst() && k.IsConst() {
			return e.setBig(s, args[0], IntC(new(big.Int).Exp(a.Val, k.Val, PConst)), probe), true
		}
		e.note("gnark-crypto Element.Exp on a symbolic exponent: uninterpreted gl_pow(base, e) in [0,p), non-zero for a non-zero base")
		return e.setBig(s, args[0], App("gl_pow", SInt, a, k), probe), true
	case "(*github.com/consensys/gnark-crypto/field/goldilocks.Element).BigInt":
		return e.setBig(s, args[1], e.bigOf(s, args[0]), probe), true
	// ---- gnark helpers
	case "(github.com/consensys/gnark/std/math/emulated.Goldilocks).Modulus", "(github.com/consensys/gnark/std/math/emulated/emparams.Goldilocks).Modulus":
		e.note("emulated.Goldilocks{}.Modulus() = 2^64 - 2^32 + 1 (gnark v0.9.1 emparams)")
		o := newObject("Goldilocks.Modulus", nil)
		s.heap[o] = VInt{PT()}
		return VPtr{Obj: o}, true
	case "(github.com/consensys/gnark-crypto/ecc.ID).ScalarField":
		e.note("ecc.ID.ScalarField(): the curve is BN254 (the only curve the module compiles for)")
		o := newObject("ScalarField", nil)
		s.heap[o] = VInt{RT()}
		return VPtr{Obj: o}, true
	case "github.com/consensys/gnark/std/math/bits.WithNbDigits":
		return VOpaque{Kind: "nbdigits", Data: asInt(args[0])}, true
	case "github.com/consensys/gnark/std/math/bits.WithUnconstrainedOutputs", "github.com/consensys/gnark/std/math/bits.WithUnconstrainedInputs":
		return VOpaque{Kind: "bits-unconstrained"}, true
	case "github.com/consensys/gnark/std/math/bits.ToBinary":
		n := 254
		omit := false
		for _, o := range e.variadic(s, args[2]) {
			if op, ok := o.(VOpaque); ok && op.Kind == "bits-omit-modcheck" {
				omit = true
				continue
			}
			if op, ok := o.(VOpaque); !ok || op.Kind != "nbdigits" {
				// any other option (WithUnconstrainedOutputs, unknown ones): the output bits are not
				// asserted boolean, so the decomposition implies no range at all
				e.note("bits.ToBinary with an option other than WithNbDigits: outputs treated as unconstrained (no range fact)")
				if e.mode == COMPLETE {
					return VSlice{Off: Int64C(0), Len: Int64C(0), Cap: Int64C(0)}, true
				}
				return VSlice{Off: Int64C(0), Len: Int64C(0), Cap: Int64C(0)}, true
			}
		}
		for _, o := range e.variadic(s, args[2]) {
			if op, ok := o.(VOpaque); ok && op.Kind == "nbdigits" {
				nt := op.Data.(*Term)
				if !nt.IsConst() {
					// symbolic width: only the range fact is modelled
					val := e.fieldVal(args[1])
					if e.mode == COMPLETE {
						e.constraint(s, f, x, "range", Lt(val, appSimplify("pow2", SInt, []*Term{nt})), "ToBinary: value fits", probe)
					} else {
						e.note("bits.ToBinary with symbolic width n: modelled as v < 2^n (0 < n < 254)")
						s.assume(Implies(And(Lt(Int64C(0), nt), Lt(nt, Int64C(254))), Lt(val, appSimplify("pow2", SInt, []*Term{nt}))))
					}
					return VSlice{Off: Int64C(0), Len: Int64C(0), Cap: Int64C(0)}, true
				}
				n = int(nt.Val.Int64())
			}
		}
		e.note("gnark bits.ToBinary: boolean wires with exact integer recomposition (n < 254)")
		return e.toBinaryOpt(s, f, x, e.fieldVal(args[1]), n, omit, probe), true
	case "github.com/consensys/gnark/std/math/bits.OmitModulusCheck":
		return VOpaque{Kind: "bits-omit-modcheck"}, true
	case "github.com/consensys/gnark/std/rangecheck.New":
		api := args[0].(VOpaque)
		info := api.Data.(*apiInfo)
		e.note("rangecheck.New: native if the builder implements Rangechecker, else commit-based if it implements Committer, else bit decomposition (gnark v0.9.1 std/rangecheck/rangecheck.go)")
		return VOpaque{Kind: "rangechecker", Data: Ite(info.isRC, Int64C(0), Ite(info.isCommitter, Int64C(1), Int64C(2)))}, true
	case "github.com/consensys/gnark/constraint/solver.RegisterHint":
		return VTuple{}, true
	// ---- regexp, strconv on symbolic strings
	case "regexp.MustCompile", "regexp.Compile":
		pat, ok := args[0].(VStr)
		if !ok || pat.T.Op != "sconst" {
			panic(execError{"regexp.MustCompile of a non-constant pattern"})
		}
		cr, err := compileGoRegex(pat.T.Name)
		if err != nil {
			panic(execError{err.Error()})
		}
		e.regexSeq++
		rv := VOpaque{Kind: "regexp", ID: 1000000 + e.regexSeq, Data: cr}
		if name == "regexp.Compile" {
			return VTuple{[]Value{rv, VIface{}}}, true
		}
		return rv, true
	case "(*regexp.Regexp).SubexpNames":
		cr := args[0].(VOpaque).Data.(*compiledRe)
		obj := newObject("subexpnames", nil)
		var el []Value
		for _, nm := range cr.names {
			el = append(el, VStr{StrC(nm)})
		}
		s.heap[obj] = &Seq{Conc: el}
		return VSlice{Obj: obj, Off: Int64C(0), Len: Int64C(int64(len(el))), Cap: Int64C(int64(len(el)))}, true
	case "(*regexp.Regexp).MatchString":
		cr := args[0].(VOpaque).Data.(*compiledRe)
		e.note("regexp: the code's patterns are translated to SMT-LIB regular languages (RE2 syntax subset; unanchored search = Σ* r Σ*)")
		return VBool{cr.matchPred(args[1].(VStr).T)}, true
	case "(*regexp.Regexp).FindStringSubmatch":
		cr := args[0].(VOpaque).Data.(*compiledRe)
		st := args[1].(VStr).T
		e.note("regexp: the code's patterns are translated to SMT-LIB regular languages (RE2 syntax subset; unanchored search = Σ* r Σ*)")
		e.note("regexp.FindStringSubmatch: the submatches are any decomposition s = pre ++ pieces ++ post of a top-level-concatenation pattern (Go's leftmost-first choice is one of them)")
		var groups, facts []*Term
		structural := false
		if segs, ok := segmentsOf(s.pc, st); ok {
			if str, conc := allLiteral(segs); conc {
				// concrete subject: Go's own regexp decides
				m := regexp.MustCompile(cr.pattern).FindStringSubmatch(str)
				if m == nil {
					return VSlice{Off: Int64C(0), Len: Int64C(0), Cap: Int64C(0)}, true
				}
				for _, g := range m {
					groups = append(groups, StrC(g))
				}
				structural = true
			} else if cr.structNoMatch(segs) {
				// a literal piece of the pattern cannot occur anywhere in the subject
				e.note("regexp non-match on a structured subject: a literal piece of the pattern has no possible occurrence (alphabet walk)")
				s.assume(Not(cr.matchPred(st)))
				return VSlice{Off: Int64C(0), Len: Int64C(0), Cap: Int64C(0)}, true
			} else if gs, ok := cr.structMatch(segs); ok {
				groups, structural = gs, true
				e.note("regexp.FindStringSubmatch on a structured subject: decided by a deterministic walk of the pattern (delimited greedy pieces) from position 0")
			} else if e.focusedNoMatch(s.pc, segs, cr) {
				e.note("regexp non-match on a structured subject: refuted by a focused query (membership of the concatenation in Σ* r Σ* under the membership facts of its variables only)")
				s.assume(Not(cr.matchPred(st)))
				return VSlice{Off: Int64C(0), Len: Int64C(0), Cap: Int64C(0)}, true
			} else if gs, ok := cr.structMatch(segs); ok {
				// the subject is a concatenation of literals and variables of known alphabet and the walk of
				// the pattern from position 0 succeeds: this is the leftmost match and its submatches are unique
				groups, structural = gs, true
				e.note("regexp.FindStringSubmatch on a structured subject: decided by a deterministic walk of the pattern (delimited greedy pieces) from position 0")
			}
		}
		if !structural {
			var err error
			groups, facts, err = cr.submatches(st)
			if err != nil {
				panic(execError{err.Error()})
			}
		}
		obj := newObject("submatch@"+e.posOf(x.Pos()), nil)
		var el []Value
		for _, g := range groups {
			el = append(el, VStr{g})
		}
		s.heap[obj] = &Seq{Conc: el}
		if structural {
			if _, conc := st, st.Op == "sconst"; !conc {
				s.assume(cr.matchPred(st)) // a consequence of the walk, stated for the solver
			}
		} else {
			e.alt = &altResult{cond: cr.matchPred(st), val: VSlice{Off: Int64C(0), Len: Int64C(0), Cap: Int64C(0)}, facts: facts}
		}
		return VSlice{Obj: obj, Off: Int64C(0), Len: Int64C(int64(len(el))), Cap: Int64C(int64(len(el)))}, true
	case "encoding/json.Unmarshal":
		// the decoder is an assumed external: on success the target holds an arbitrary value of its Go type
		iv, ok := args[1].(VIface)
		var p VPtr
		if ok {
			p, ok = iv.V.(VPtr)
		} else {
			p, ok = args[1].(VPtr)
		}
		if !ok || p.Obj == nil {
			panic(execError{"json.Unmarshal into a non-pointer"})
		}
		t := e.typeAtPath(p)
		if t == nil {
			panic(execError{"json.Unmarshal: cannot type the target"})
		}
		e.note("encoding/json.Unmarshal: assumed external; the target is havocked to an arbitrary value of its Go type, the error is arbitrary")
		a := &absCtx{e: e, s: s}
		nv := a.abstractValue(t, uniqueName("json"), nil)
		for _, fc := range a.facts {
			s.assume(fc)
		}
		e.recordWrite(s, probe, p)
		e.store(s, p, nv, x.Pos())
		return VIface{NilSym: Fresh("json.errnil", SBool)}, true
	case "strings.Split":
		st, sep := args[0].(VStr).T, args[1].(VStr).T
		e.note("strings.Split / strings.TrimSpace: uninterpreted (splitlen, splitpiece, trimspace); contracts state what they need about the pieces as an explicit premise")
		n := App("str.splitlen", SInt, st, sep)
		s.assume(Le(Int64C(1), n))
		s.assume(Lt(n, IntC(bigPow2(62))))
		sq := &Seq{Sym: func(i *Term) Value { return VStr{App("str.splitpiece", SStr, st, sep, i)} }, Desc: "strings.Split"}
		return VSlice{Pure: sq, Off: Int64C(0), Len: n, Cap: n}, true
	case "strings.TrimSpace":
		return VStr{App("str.trimspace", SStr, args[0].(VStr).T)}, true
	case "strconv.Atoi":
		st := args[0].(VStr).T
		v := StrToInt(st)
		e.note("strconv.Atoi: exact on digit strings (value = str.to_int, error iff above MaxInt64); any other string (sign, malformed) yields an unconstrained outcome")
		ok := And(StrInRe(st, reDigits), Le(v, IntC(new(big.Int).Sub(bigPow2(63), bigOne))))
		uv := Fresh("atoi", SInt)
		s.assume(And(Le(Neg(IntC(bigPow2(63))), uv), Lt(uv, IntC(bigPow2(63)))))
		e.alt = &altResult{cond: ok, val: VTuple{[]Value{VInt{uv}, VIface{NilSym: Fresh("atoi.errnil", SBool)}}}}
		return VTuple{[]Value{VInt{v}, VIface{}}}, true
	case "strconv.ParseUint":
		st := args[0].(VStr).T
		base, bitSize := asInt(args[1]), asInt(args[2])
		if !base.IsConst() || base.Val.Int64() != 10 || !bitSize.IsConst() || bitSize.Val.Int64() < 1 || bitSize.Val.Int64() > 64 {
			panic(execError{"strconv.ParseUint with a base other than 10 or a symbolic bit size"})
		}
		v := StrToInt(st)
		e.note("strconv.ParseUint(s, 10, n): succeeds exactly on digit strings below 2^n with value str.to_int(s)")
		ok := And(StrInRe(st, reDigits), Lt(v, IntC(bigPow2(uint(bitSize.Val.Int64())))))
		uv := Fresh("parseuint", SInt)
		s.assume(And(Le(Int64C(0), uv), Lt(uv, IntC(bigPow2(64)))))
		e.alt = &altResult{cond: ok, val: VTuple{[]Value{VInt{uv}, VIface{NilSym: BoolC(false)}}}}
		return VTuple{[]Value{VInt{v}, VIface{}}}, true
	// ---- math, bits, os, fmt, strconv, sync
	case "math.Pow":
		a, ok1 := args[0].(VFloat)
		b, ok2 := args[1].(VFloat)
		if ok1 && ok2 {
			return VFloat{math.Pow(a.F, b.F)}, true
		}
		if sb, ok := args[1].(VSymFloat); ok && ok1 && a.F == 2 {
			e.note("math.Pow(2, k) for a symbolic integer k in [0,256]: exact power of two")
			s.assume(And(Le(Int64C(0), sb.T), Le(sb.T, Int64C(256))))
			return VSymFloat{appSimplify("pow2", SInt, []*Term{sb.T})}, true
		}
		panic(execError{"math.Pow on symbolic operands"})
	case "math/bits.Len64", "math/bits.Len":
		a := asInt(args[0])
		if a.IsConst() {
			return VInt{Int64C(int64(bits.Len64(a.Val.Uint64())))}, true
		}
		return VInt{App("bitlen", SInt, a)}, true
	case "math/bits.Reverse8":
		a := asInt(args[0])
		if a.IsConst() {
			return VInt{Int64C(int64(bits.Reverse8(uint8(a.Val.Uint64()))))}, true
		}
		return VInt{App("rev8", SInt, a)}, true
	case "math/bits.Reverse64", "math/bits.Reverse":
		a := asInt(args[0])
		if a.IsConst() {
			return VInt{IntC(new(big.Int).SetUint64(bits.Reverse64(a.Val.Uint64())))}, true
		}
		panic(execError{"bits.Reverse on symbolic operand"})
	case "os.Getenv":
		e.note("os.Getenv: arbitrary string")
		if nm, ok := args[0].(VStr); ok && nm.T.Op == "sconst" {
			return VStr{Var("env$"+nm.T.Name, SStr)}, true
		}
		return VStr{Fresh("env", SStr)}, true
	case "fmt.Println", "fmt.Printf", "fmt.Print", "log.Println", "log.Printf":
		return VTuple{[]Value{VInt{Int64C(0)}, VIface{}}}, true
	case "fmt.Sprintf", "fmt.Sprint", "strconv.Itoa":
		return VStr{Fresh("str", SStr)}, true
	case "fmt.Errorf", "errors.New":
		return VIface{Dyn: types.Universe.Lookup("error").Type(), V: VOpaque{Kind: "error"}}, true
	case "(*sync.Mutex).Lock", "(*sync.Mutex).Unlock":
		e.note("sync.Mutex lock/unlock dropped: sequential execution assumed")
		return VTuple{}, true
	}
	return nil, false
}

// mergeNilPtr: the result pointer is nil when the condition is false.  Pointers cannot be
// merged symbolically; the two cases are kept apart by a guarded pointer value.
func mergeNilPtr(valid *Term, p Value) Value {
	if valid.IsTrue() {
		return p
	}
	q := p.(VPtr)
	q.Valid = valid
	return q
}

func (e *Engine) divisorNonZero(s *State, b *Term) {
	if b.IsConst() {
		if b.Val.Sign() == 0 {
			panic(pathEnd{"division by zero"})
		}
		return
	}
	s.assume(Not(Eq(b, Int64C(0))))
}

func (c *evalCtx) evalAddrExpr(x interface{}) VPtr {
	switch n := x.(type) {
	case *ast.ParenExpr:
		return c.evalAddrExpr(n.X)
	case *ast.SelectorExpr:
		base := c.eval(n.X)
		bp, ok := base.(VPtr)
		if !ok {
			panic(execError{"modifies: base of " + exprString(n) + " is not a pointer"})
		}
		t := c.e.typeAtPath(bp)
		if t == nil {
			panic(execError{"modifies: untyped object"})
		}
		st, ok := t.Underlying().(*types.Struct)
		if !ok {
			panic(execError{"modifies: not a struct"})
		}
		for i := 0; i < st.NumFields(); i++ {
			if st.Field(i).Name() == n.Sel.Name {
				return VPtr{Obj: bp.Obj, Path: append(append([]PathElem(nil), bp.Path...), PathElem{Field: i})}
			}
		}
	case *ast.StarExpr:
		if p, ok := c.eval(n.X).(VPtr); ok {
			return p
		}
	case *ast.Ident:
		if c.names != nil {
			if r, ok := c.names[n.Name]; ok && r.isAddr {
				return r.v.(VPtr)
			}
		}
		if v, ok := c.lookup(n.Name); ok {
			if p, ok := v.(VPtr); ok {
				return p
			}
		}
	}
	panic(execError{"modifies: unsupported lvalue"})
}

// focusedNoMatch: the path facts that speak only about the variables of the subject already exclude a
// match anywhere in the subject (a pure regular-language query, no word equation).
func (e *Engine) focusedNoMatch(pc []*Term, segs []segment, cr *compiledRe) bool {
	vars := map[*Term]bool{}
	var parts []*Term
	for _, sg := range segs {
		if sg.v != nil {
			vars[sg.v] = true
			parts = append(parts, sg.v)
		} else {
			parts = append(parts, StrC(sg.lit))
		}
	}
	var onlyVars func(t *Term) bool
	onlyVars = func(t *Term) bool {
		if t.Op == "var" {
			return vars[t]
		}
		if t.Op == "bound" || t.Op == "forall" || t.Op == "exists" || t.Op == "app" {
			return false
		}
		for _, a := range t.Args {
			if !onlyVars(a) {
				return false
			}
		}
		return true
	}
	var hyps []*Term
	var add func(f *Term)
	add = func(f *Term) {
		if f.Op == "and" {
			for _, a := range f.Args {
				add(a)
			}
			return
		}
		if onlyVars(f) {
			hyps = append(hyps, f)
		}
	}
	for _, f := range pc {
		add(f)
	}
	hyps = append(hyps, cr.matchPred(StrConcat(parts...)))
	e.pruneCalls++
	return !e.quickSat(hyps)
}

// checkAccumulatorReuse: frontend.API.MulAcc(a, b, c) "may mutate a without allocating a new result" (gnark's R1CS
// builder overwrites the storage of a when the sum fits its capacity).  A value that was passed as the accumulator
// must therefore not be used again: every other copy of it (an array copied before the call, a slice element) may
// have changed.  The engine works with values, not with storage, so the obligation is stated on values: a term that
// was an accumulator must not be an operand of a later API call on the same path.  Plain wires (a hint output, an
// input: one-term expressions without spare capacity) and constants are never overwritten and are exempt.
func (e *Engine) checkAccumulatorReuse(s *State, f *Frame, x *ssa.Call, name string, args []Value, probe *probeRec) {
	term := func(v Value) *Term {
		switch y := v.(type) {
		case VInt:
			return y.T
		case VIface:
			if iv, ok := y.V.(VInt); ok {
				return iv.T
			}
		}
		return nil
	}
	var ops []*Term
	for _, a := range args {
		if t := term(a); t != nil {
			ops = append(ops, t)
			continue
		}
		if sl, ok := a.(VSlice); ok && sl.Len != nil && sl.Len.IsConst() && sl.Len.Val.Int64() <= 64 && (sl.Obj != nil || sl.Pure != nil) {
			for i := int64(0); i < sl.Len.Val.Int64(); i++ {
				if t := term(e.sliceAt(s, sl, Int64C(i))); t != nil {
					ops = append(ops, t)
				}
			}
		}
	}
	if probe == nil && len(s.consumedAcc) > 0 {
		for _, t := range ops {
			if pos, ok := s.consumedAcc[t]; ok {
				e.emit(s, "acc-reuse", e.callSiteName(f, x, "invoke."+name), BoolC(false), x.Pos(),
					"an operand of this API call was the accumulator of the MulAcc at "+e.posOf(pos)+": gnark may have overwritten it in place")
				delete(s.consumedAcc, t) // one report per value
			}
		}
	}
	if name == "MulAcc" && len(args) == 3 && probe == nil && e.curFn != nil {
		// ownership: an accumulator that is an entry value of the function under verification (a parameter, a field
		// or an element of one) belongs to the caller, who may still hold and use it; whether it has spare capacity
		// is not known here (the caller may pass the result of an earlier MulAcc).  Overwriting it is allowed only
		// when the contract says so (`flag consumes-accumulator`: callers then treat their arguments as consumed).
		if t := term(args[0]); t != nil && t.Op == "var" && strings.HasPrefix(t.Name, funcKey(e.curFn)+".") &&
			!(e.curC != nil && e.curC.Flags["consumes-accumulator"]) {
			e.emit(s, "acc-owned", e.callSiteName(f, x, "invoke."+name), BoolC(false), x.Pos(),
				"the accumulator of this MulAcc is a value passed in by the caller ("+t.Name+"): gnark's R1CS builder may overwrite it in place, so the caller's copy becomes unreliable; copy it first (api.Mul(x, 1)) or declare `flag consumes-accumulator`")
		}
	}
	if name == "MulAcc" && len(args) == 3 {
		if t := term(args[0]); t != nil && !t.IsConst() && t.Op != "var" {
			if s.consumedAcc == nil {
				s.consumedAcc = map[*Term]token.Pos{}
			}
			s.consumedAcc[t] = x.Pos()
		}
	}
}
