package main

// Evaluation of contract expressions (Go expression syntax) to symbolic values.

import (
	"fmt"
	"go/ast"
	"go/token"
	"go/types"
	"math/big"
	"os"
	"strconv"
	"strings"
)

type evalCtx struct {
	shadow  map[string]int // names bound by a binder of the contract language, with nesting depth
	e       *Engine
	s       *State
	env     map[string]Value
	names   map[string]nameRef // current locals (invariants)
	oldHeap map[*Object]interface{}
	oldEnv  map[string]Value
	inOld    bool
	pkg      *types.Package
	recDepth int
	frame    *Frame
}

var (
	PConst, _ = new(big.Int).SetString("18446744069414584321", 10)
	RConst, _ = new(big.Int).SetString("21888242871839275222246405745257275088548364400416034343698204186575808495617", 10)
)

type VSpecTuple struct{ E []Value }

func (c *evalCtx) heap() map[*Object]interface{} {
	if c.inOld && c.oldHeap != nil {
		return c.oldHeap
	}
	return c.s.heap
}

func (c *evalCtx) withHeap(f func() Value) Value {
	if c.inOld && c.oldHeap != nil {
		saved := c.s.heap
		c.s.heap = c.oldHeap
		defer func() { c.s.heap = saved }()
	}
	return f()
}

func (c *evalCtx) lookup(name string) (Value, bool) {
	// a variable bound inside the contract expression (forall, mktuple, iterate ...) hides a program variable of the same name
	if c.shadow[name] > 0 {
		if v, ok := c.env[name]; ok {
			return v, true
		}
	}
	if c.inOld && c.oldEnv != nil {
		if v, ok := c.oldEnv[name]; ok {
			return v, true
		}
	}
	if c.names != nil && !c.inOld {
		if r, ok := c.names[name]; ok {
			if r.isAddr {
				return c.e.load(c.s, r.v.(VPtr), token.NoPos), true
			}
			return r.v, true
		}
	}
	if v, ok := c.env[name]; ok {
		return v, true
	}
	return nil, false
}

func (c *evalCtx) evalBool(x ast.Expr) *Term {
	v := c.eval(x)
	b, ok := v.(VBool)
	if !ok {
		panic(execError{fmt.Sprintf("contract expression %s is not boolean (%T)", exprString(x), v)})
	}
	return b.T
}

func exprString(x ast.Expr) string {
	return types.ExprString(x)
}

func (c *evalCtx) deref(v Value) Value {
	for {
		switch x := v.(type) {
		case VPtr:
			if x.Obj == nil {
				return v
			}
			v = c.withHeap(func() Value { return c.e.load(c.s, x, token.NoPos) })
			continue
		}
		return v
	}
}

func (c *evalCtx) intOf(v Value) *Term {
	switch x := v.(type) {
	case VUndef:
		return Fresh("undef", SInt)
	case VInt:
		return x.T
	case VBigRef:
		return x.T
	case VPtr:
		return c.intOf(c.deref(v))
	case VIface:
		if x.V != nil {
			return c.intOf(x.V)
		}
		if x.Dyn == nil && x.NilSym == nil {
			// an unset frontend.Variable (e.g. a freshly made slice element): an arbitrary, unconstrained value
			return Var("unset.frontend.Variable", SInt)
		}
	case VStruct:
		// goldilocks.Variable: single Limb field
		if len(x.F) == 1 {
			return c.intOf(x.F[0])
		}
	}
	panic(execError{fmt.Sprintf("contract: expected integer, got %T", v)})
}

func (c *evalCtx) eval(x ast.Expr) Value {
	switch n := x.(type) {
	case *ast.ParenExpr:
		return c.eval(n.X)
	case *ast.BasicLit:
		switch n.Kind {
		case token.INT:
			bi, ok := new(big.Int).SetString(n.Value, 0)
			if !ok {
				panic(execError{"bad int literal " + n.Value})
			}
			return VInt{IntC(bi)}
		case token.STRING:
			s, _ := strconv.Unquote(n.Value)
			return VStr{StrC(s)}
		}
	case *ast.Ident:
		switch n.Name {
		case "true":
			return VBool{BoolC(true)}
		case "false":
			return VBool{BoolC(false)}
		case "nil":
			return VNilT{}
		case "P":
			return VInt{IntC(PConst)}
		case "R":
			return VInt{IntC(RConst)}
		case "NATIVE":
			return VInt{Int64C(0)}
		case "COMMIT":
			return VInt{Int64C(1)}
		case "BIT_DECOMP":
			return VInt{Int64C(2)}
		case "sound":
			return VBool{BoolC(c.e.mode == SOUND)}
		case "complete":
			return VBool{BoolC(c.e.mode == COMPLETE)}
		}
		if v, ok := c.lookup(n.Name); ok {
			return v
		}
		if v, ok := c.e.lookupGlobalByName(c.s, c.pkg, n.Name); ok {
			return v
		}
		panic(execError{"contract: unknown identifier " + n.Name})
	case *ast.SelectorExpr:
		// package-qualified global?
		if id, ok := n.X.(*ast.Ident); ok {
			if _, isLocal := c.lookup(id.Name); !isLocal {
				if v, ok := c.e.lookupQualified(c.s, id.Name, n.Sel.Name); ok {
					return v
				}
			}
		}
		base := c.eval(n.X)
		return c.selectField(base, n.Sel.Name, n)
	case *ast.IndexExpr:
		base := c.deref(c.eval(n.X))
		idx := c.intOf(c.eval(n.Index))
		switch b := base.(type) {
		case VArr:
			sq := &Seq{Conc: b.E}
			v, ok := sq.at(idx)
			if !ok {
				panic(execError{"contract: array index out of range in " + exprString(x)})
			}
			return v
		case VSlice:
			if b.Obj == nil && b.Pure == nil {
				// a nil slice indexed under a guard that is false for it (forall over an empty range, a
				// conjunct after a failing length equation): the element is an undefined value
				return VUndef{}
			}
			var out Value
			func() {
				defer func() {
					if r := recover(); r != nil {
						if _, ok := r.(pathEnd); ok {
							out = VUndef{}
							return
						}
						panic(r)
					}
				}()
				out = c.withHeap(func() Value { return c.e.sliceAt(c.s, b, idx) })
			}()
			return out
		case VUndef:
			return VUndef{}
		case VSpecTuple:
			if idx.IsConst() {
				k := idx.Val.Int64()
				if k < 0 || int(k) >= len(b.E) {
					panic(execError{"contract: tuple index out of range in " + exprString(x)})
				}
				return b.E[k]
			}
			// symbolic index: selection chain (out-of-range selects the last element)
			v := b.E[len(b.E)-1]
			for k := len(b.E) - 2; k >= 0; k-- {
				v = mergeValues(Eq(idx, Int64C(int64(k))), b.E[k], v)
			}
			return v
		}
		panic(execError{fmt.Sprintf("contract: cannot index %T in %s", base, exprString(x))})
	case *ast.SliceExpr:
		base := c.deref(c.eval(n.X))
		sl, ok := base.(VSlice)
		if !ok {
			panic(execError{"contract: slicing non-slice"})
		}
		lo := Int64C(0)
		hi := sl.Len
		if n.Low != nil {
			lo = c.intOf(c.eval(n.Low))
		}
		if n.High != nil {
			hi = c.intOf(c.eval(n.High))
		}
		return VSlice{Obj: sl.Obj, Pure: sl.Pure, Off: Add(sl.Off, lo), Len: Sub(hi, lo), Cap: Sub(sl.Cap, lo)}
	case *ast.UnaryExpr:
		switch n.Op {
		case token.NOT:
			return VBool{Not(c.evalBool(n.X))}
		case token.SUB:
			return VInt{Neg(c.intOf(c.eval(n.X)))}
		}
	case *ast.StarExpr:
		return c.deref(c.eval(n.X))
	case *ast.BinaryExpr:
		return c.evalBinary(n)
	case *ast.CallExpr:
		return c.evalCall(n)
	}
	panic(execError{fmt.Sprintf("contract: unsupported expression %s (%T)", exprString(x), x)})
}

// VUndef: the value of a contract expression that is not defined in this state (an element of a nil
// slice).  It propagates through selections and becomes an unconstrained term where a term is needed.
type VUndef struct{}

func (c *evalCtx) selectField(base Value, name string, x ast.Expr) Value {
	if _, ok := base.(VUndef); ok {
		return VUndef{}
	}
	if iv, ok := base.(VIface); ok {
		if p, isPtr := iv.V.(VPtr); isPtr {
			base = p // a concrete pointer boxed in an interface (e.g. a Gate)
		} else if st, isSt := iv.V.(VStruct); isSt {
			base = st
		}
	}
	base = c.deref(base)
	if st, ok := base.(VStruct); ok && st.T != nil {
		for i := 0; i < st.T.NumFields(); i++ {
			if st.T.Field(i).Name() == name {
				return st.F[i]
			}
		}
		for i := 0; i < st.T.NumFields(); i++ {
			if st.T.Field(i).Embedded() {
				if inner, ok := c.deref(st.F[i]).(VStruct); ok {
					for j := 0; j < inner.T.NumFields(); j++ {
						if inner.T.Field(j).Name() == name {
							return inner.F[j]
						}
					}
				}
			}
		}
	}
	panic(execError{fmt.Sprintf("contract: cannot select field %s of %T in %s", name, base, exprString(x))})
}

func (c *evalCtx) evalBinary(n *ast.BinaryExpr) Value {
	switch n.Op {
	case token.LAND:
		l := c.evalBool(n.X)
		if l.IsFalse() {
			return VBool{l} // short-circuit: the right operand may not be well-formed here
		}
		return VBool{And(l, c.evalBool(n.Y))}
	case token.LOR:
		l := c.evalBool(n.X)
		if l.IsTrue() {
			return VBool{l}
		}
		return VBool{Or(l, c.evalBool(n.Y))}
	}
	l := c.eval(n.X)
	r := c.eval(n.Y)
	switch n.Op {
	case token.EQL, token.NEQ:
		t := c.valuesEqual(l, r, n)
		if n.Op == token.NEQ {
			t = Not(t)
		}
		return VBool{t}
	}
	a := c.intOf(l)
	b := c.intOf(r)
	switch n.Op {
	case token.ADD:
		return VInt{Add(a, b)}
	case token.SUB:
		return VInt{Sub(a, b)}
	case token.MUL:
		return VInt{Mul(a, b)}
	case token.QUO:
		return VInt{Div(a, b)}
	case token.REM:
		return VInt{Mod(a, b)}
	case token.LSS:
		return VBool{Lt(a, b)}
	case token.LEQ:
		return VBool{Le(a, b)}
	case token.GTR:
		return VBool{Lt(b, a)}
	case token.GEQ:
		return VBool{Le(b, a)}
	}
	panic(execError{"contract: unsupported operator " + n.Op.String()})
}

func (c *evalCtx) valuesEqual(l, r Value, n ast.Expr) *Term {
	if _, ok := l.(VUndef); ok {
		return Fresh("undef.eq", SBool)
	}
	if _, ok := r.(VUndef); ok {
		return Fresh("undef.eq", SBool)
	}
	if _, ok := r.(VNilT); ok {
		return c.isNil(l)
	}
	if _, ok := l.(VNilT); ok {
		return c.isNil(r)
	}
	l = c.deref(l)
	r = c.deref(r)
	if lb, ok := l.(VBool); ok {
		return Eq(lb.T, r.(VBool).T)
	}
	if ls, ok := l.(VStr); ok {
		return Eq(ls.T, r.(VStr).T)
	}
	lf := c.flat(l)
	rf := c.flat(r)
	if len(lf) != len(rf) {
		panic(execError{fmt.Sprintf("contract: comparing values of different shape (%d vs %d leaves) in %s", len(lf), len(rf), exprString(n))})
	}
	var cs []*Term
	for i := range lf {
		cs = append(cs, Eq(lf[i], rf[i]))
	}
	return And(cs...)
}

func (c *evalCtx) flat(v Value) []*Term {
	switch x := v.(type) {
	case VSpecTuple:
		var out []*Term
		for _, el := range x.E {
			out = append(out, c.flat(el)...)
		}
		return out
	case VPtr:
		return c.flat(c.deref(v))
	case VBigRef:
		return []*Term{x.T}
	case VIface:
		if x.V == nil && x.Dyn == nil && x.NilSym == nil {
			return []*Term{Var("unset.frontend.Variable", SInt)}
		}
	case VStruct:
		var out []*Term
		for _, f := range x.F {
			out = append(out, c.flat(f)...)
		}
		return out
	case VArr:
		var out []*Term
		for _, f := range x.E {
			out = append(out, c.flat(f)...)
		}
		return out
	}
	return flatten(v, nil)
}

func (c *evalCtx) isNil(v Value) *Term {
	if i, ok := v.(VIface); ok && i.NilSym != nil {
		return i.NilSym
	}
	b, ok := isNilValue(v)
	if !ok {
		panic(execError{fmt.Sprintf("contract: nil comparison on %T", v)})
	}
	return BoolC(b)
}

var boundSeq = 0

func (c *evalCtx) evalCall(n *ast.CallExpr) Value {
	fname := ""
	switch f := n.Fun.(type) {
	case *ast.Ident:
		fname = f.Name
	default:
		panic(execError{"contract: unsupported call " + exprString(n)})
	}
	switch fname {
	case "old":
		saved := c.inOld
		c.inOld = true
		defer func() { c.inOld = saved }()
		return c.eval(n.Args[0])
	case "callghost":
		// callghost("pkg.Recv.Fn", k, "name"): ghost result `name` of the k-th contracted call to Fn
		if c.frame == nil {
			panic(execError{"contract: callghost() is only available in ghost initialisers"})
		}
		nm := c.eval(n.Args[0]).(VStr).T.Name
		k := c.intOf(c.eval(n.Args[1]))
		gn := c.eval(n.Args[2]).(VStr).T.Name
		v, ok := c.frame.callResults[fmt.Sprintf("%s#%d.%s", nm, k.Val.Int64(), gn)]
		if !ok {
			panic(execError{"contract: no recorded ghost " + gn + " of call " + nm})
		}
		return v
	case "callresult":
		if c.frame == nil {
			panic(execError{"contract: callresult() is only available in ghost initialisers"})
		}
		nm := c.eval(n.Args[0]).(VStr).T.Name
		k := c.intOf(c.eval(n.Args[1]))
		v, ok := c.frame.callResults[fmt.Sprintf("%s#%d", nm, k.Val.Int64())]
		if !ok {
			panic(execError{"contract: no recorded result of call " + nm})
		}
		return v
	case "callarg":
		// callarg("pkg.Recv.Fn", k, n): the n-th argument (receiver = 0) of the k-th call of a contracted function
		if c.frame == nil {
			panic(execError{"contract: callarg() is only available in ghost initialisers"})
		}
		nm := c.eval(n.Args[0]).(VStr).T.Name
		k := c.intOf(c.eval(n.Args[1]))
		a := c.intOf(c.eval(n.Args[2]))
		v, ok := c.frame.callResults[fmt.Sprintf("%s#%d.arg%d", nm, k.Val.Int64(), a.Val.Int64())]
		if !ok {
			panic(execError{"contract: no recorded argument of call " + nm})
		}
		return v
	case "atentry":
		// atentry(e): the value of e when the innermost enclosing cut loop that has a snapshot was entered
		if c.frame == nil || len(c.frame.entrySnap) == 0 {
			panic(execError{"contract: atentry() outside a loop invariant"})
		}
		best := -1
		for ord := range c.frame.entrySnap {
			if ord > best {
				best = ord
			}
		}
		if len(n.Args) == 2 {
			best = int(c.intOf(c.eval(n.Args[1])).Val.Int64())
		}
		snap := c.frame.entrySnap[best]
		if snap == nil {
			panic(execError{"contract: atentry(): no snapshot for that loop"})
		}
		savedNames, savedHeap := c.names, c.s.heap
		c.names, c.s.heap = snap.names, snap.heap
		defer func() { c.names, c.s.heap = savedNames, savedHeap }()
		v := c.eval(n.Args[0])
		// a slice value refers to its backing store: take the elements as they were in the snapshot
		// (the snapshot's own sequence object is kept, so that the value is recognised as the same sequence
		// wherever else it is mentioned)
		if sl, ok := v.(VSlice); ok {
			if sl.Obj != nil {
				v = c.e.toPure(c.s, sl)
			}
		} else if pv := c.e.purify(c.s, v); pv != nil {
			v = pv
		}
		return v
	case "len":
		v := c.deref(c.eval(n.Args[0]))
		switch x := v.(type) {
		case VUndef:
			return VInt{Fresh("undef.len", SInt)}
		case VSlice:
			return VInt{x.Len}
		case VArr:
			return VInt{Int64C(int64(len(x.E)))}
		case VSpecTuple:
			return VInt{Int64C(int64(len(x.E)))}
		}
		panic(execError{fmt.Sprintf("contract: len of %T", v)})
	case "implies":
		ante := c.evalBool(n.Args[0])
		if ante.IsFalse() {
			return VBool{BoolC(true)} // the consequent may not even be well-formed in this case
		}
		return VBool{Implies(ante, c.evalBool(n.Args[1]))}
	case "inre":
		// inre(s, "go regexp"): the whole string s is in the language of the pattern
		pat, ok := c.eval(n.Args[1]).(VStr)
		if !ok || pat.T.Op != "sconst" {
			panic(execError{"contract: inre needs a literal pattern"})
		}
		cr, err := compileGoRegex(pat.T.Name)
		if err != nil {
			panic(execError{"contract: " + err.Error()})
		}
		return VBool{StrInRe(c.eval(n.Args[0]).(VStr).T, cr.full)}
	case "concat":
		var parts []*Term
		for _, a := range n.Args {
			parts = append(parts, c.eval(a).(VStr).T)
		}
		return VStr{StrConcat(parts...)}
	case "splitlen":
		return VInt{App("str.splitlen", SInt, c.eval(n.Args[0]).(VStr).T, c.eval(n.Args[1]).(VStr).T)}
	case "splitpiece":
		return VStr{App("str.splitpiece", SStr, c.eval(n.Args[0]).(VStr).T, c.eval(n.Args[1]).(VStr).T, c.intOf(c.eval(n.Args[2])))}
	case "trimspace":
		return VStr{App("str.trimspace", SStr, c.eval(n.Args[0]).(VStr).T)}
	case "isdecimal":
		return VBool{App("isDecimal", SBool, c.eval(n.Args[0]).(VStr).T)}
	case "bigofdecimal":
		return VInt{App("bigOfDecimal", SInt, c.eval(n.Args[0]).(VStr).T)}
	case "nilbig":
		// option encoding used under `flag bigint-boxing`: 2*value, or 1 for a nil *big.Int (which gnark refuses
		// when the assignment becomes a witness)
		return VBool{Eq(Mod(c.intOf(c.eval(n.Args[0])), Int64C(2)), Int64C(1))}
	case "bigval":
		return VInt{Div(c.intOf(c.eval(n.Args[0])), Int64C(2))}
	case "toint":
		return VInt{StrToInt(c.eval(n.Args[0]).(VStr).T)}
	case "strlen":
		return VInt{intern(&Term{Op: "str.len", Args: []*Term{c.eval(n.Args[0]).(VStr).T}, Sort: SInt})}
	case "dyntype":
		v := c.eval(n.Args[0])
		if iv, ok := v.(VIface); ok {
			if iv.Dyn == nil {
				return VStr{StrC("nil")}
			}
			return VStr{StrC(types.TypeString(iv.Dyn, func(p *types.Package) string { return p.Name() }))}
		}
		panic(execError{fmt.Sprintf("contract: dyntype of %T", v)})
	case "iff":
		return VBool{Eq(c.evalBool(n.Args[0]), c.evalBool(n.Args[1]))}
	case "ite":
		cond := c.evalBool(n.Args[0])
		if cond.IsTrue() {
			return c.eval(n.Args[1])
		}
		if cond.IsFalse() {
			return c.eval(n.Args[2])
		}
		return mergeValues(cond, c.eval(n.Args[1]), c.eval(n.Args[2]))
	case "tuple":
		var el []Value
		for _, a := range n.Args {
			el = append(el, c.eval(a))
		}
		return VSpecTuple{el}
	case "flat":
		// flat(a, b, ...): one tuple of all scalar leaves
		var el []Value
		for _, a := range n.Args {
			for _, t := range c.flat(c.deref(c.eval(a))) {
				el = append(el, VInt{t})
			}
		}
		return VSpecTuple{el}
	case "forall", "exists":
		id, ok := n.Args[0].(*ast.Ident)
		if !ok || len(n.Args) != 4 {
			panic(execError{"contract: forall(k, lo, hi, body)"})
		}
		lo := c.intOf(c.eval(n.Args[1]))
		hi := c.intOf(c.eval(n.Args[2]))
		// small constant ranges are expanded
		if lo.IsConst() && hi.IsConst() && new(big.Int).Sub(hi.Val, lo.Val).Cmp(big.NewInt(64)) <= 0 {
			var cs []*Term
			saved, had := c.env[id.Name]
			c.pushBound(id.Name)
			for k := new(big.Int).Set(lo.Val); k.Cmp(hi.Val) < 0; k = new(big.Int).Add(k, bigOne) {
				c.env[id.Name] = VInt{IntC(k)}
				cs = append(cs, c.evalBool(n.Args[3]))
			}
			if had {
				c.env[id.Name] = saved
			} else {
				delete(c.env, id.Name)
			}
			c.popBound(id.Name)
			if fname == "forall" {
				return VBool{And(cs...)}
			}
			return VBool{Or(cs...)}
		}
		boundSeq++
		bv := Bound(fmt.Sprintf("%s$%d", id.Name, boundSeq), SInt)
		saved, had := c.env[id.Name]
		c.pushBound(id.Name)
		c.env[id.Name] = VInt{bv}
		body := c.evalBool(n.Args[3])
		if had {
			c.env[id.Name] = saved
		} else {
			delete(c.env, id.Name)
		}
		c.popBound(id.Name)
		rng := And(Le(lo, bv), Lt(bv, hi))
		if fname == "forall" {
			return VBool{Forall([]*Term{bv}, Implies(rng, body))}
		}
		return VBool{Exists([]*Term{bv}, And(rng, body))}
	case "mktuple":
		// mktuple(n, i, expr): the tuple (expr[i:=0], ..., expr[i:=n-1])
		nT := c.intOf(c.eval(n.Args[0]))
		id, ok := n.Args[1].(*ast.Ident)
		if !ok || !nT.IsConst() {
			panic(execError{"contract: mktuple(n, i, expr) needs a constant n and an identifier"})
		}
		cnt := int(nT.Val.Int64())
		saved, had := c.env[id.Name]
		c.pushBound(id.Name)
		el := make([]Value, cnt)
		for k := 0; k < cnt; k++ {
			c.env[id.Name] = VInt{Int64C(int64(k))}
			el[k] = c.eval(n.Args[2])
		}
		if had {
			c.env[id.Name] = saved
		} else {
			delete(c.env, id.Name)
		}
		c.popBound(id.Name)
		return VSpecTuple{el}
	case "iterate":
		// iterate(n, i, acc, init, expr): acc := init; for i in 0..n-1 { acc = expr }; acc
		nT := c.intOf(c.eval(n.Args[0]))
		id, ok1 := n.Args[1].(*ast.Ident)
		acc, ok2 := n.Args[2].(*ast.Ident)
		if !ok1 || !ok2 || !nT.IsConst() {
			panic(execError{"contract: iterate(n, i, acc, init, expr)"})
		}
		cnt := int(nT.Val.Int64())
		cur := c.eval(n.Args[3])
		savedI, hadI := c.env[id.Name]
		c.pushBound(id.Name)
		c.pushBound(acc.Name)
		savedA, hadA := c.env[acc.Name]
		for k := 0; k < cnt; k++ {
			c.env[id.Name] = VInt{Int64C(int64(k))}
			c.env[acc.Name] = cur
			cur = c.eval(n.Args[4])
		}
		if hadI {
			c.env[id.Name] = savedI
		} else {
			delete(c.env, id.Name)
		}
		if hadA {
			c.env[acc.Name] = savedA
		} else {
			delete(c.env, acc.Name)
		}
		c.popBound(id.Name)
		c.popBound(acc.Name)
		return cur
	case "sum":
		// sum(i, lo, hi, expr) with constant bounds
		id, ok := n.Args[0].(*ast.Ident)
		lo := c.intOf(c.eval(n.Args[1]))
		hi := c.intOf(c.eval(n.Args[2]))
		if !ok || !lo.IsConst() || !hi.IsConst() {
			panic(execError{"contract: sum(i, lo, hi, expr) needs constant bounds"})
		}
		saved, had := c.env[id.Name]
		c.pushBound(id.Name)
		acc := Int64C(0)
		for k := lo.Val.Int64(); k < hi.Val.Int64(); k++ {
			c.env[id.Name] = VInt{Int64C(k)}
			acc = Add(acc, c.intOf(c.eval(n.Args[3])))
		}
		if had {
			c.env[id.Name] = saved
		} else {
			delete(c.env, id.Name)
		}
		c.popBound(id.Name)
		return VInt{acc}
	case "pow2":
		return VInt{appSimplify("pow2", SInt, []*Term{c.intOf(c.eval(n.Args[0]))})}
	case "isnil":
		return VBool{c.isNil(c.eval(n.Args[0]))}
	case "rckind":
		v := c.deref(c.eval(n.Args[0]))
		return VInt{rcKindOf(v)}
	case "sameapi":
		a := c.deref(c.eval(n.Args[0]))
		b := c.deref(c.eval(n.Args[1]))
		return VBool{BoolC(sameOpaque(a, b))}
	case "pinned":
		// pinned(x): every leaf of x is a build-time constant or a public input of the circuit root, or
		// the path constrains it to equal a term over such values only (decided syntactically)
		v := c.deref(c.eval(n.Args[0]))
		ok := true
		var check func(v Value)
		check = func(v Value) {
			switch x := v.(type) {
			case VSlice:
				if x.Obj == nil && x.Pure == nil {
					return
				}
				boundSeq++
				j := Bound(fmt.Sprintf("j$%d", boundSeq), SInt)
				check(c.withHeap(func() Value { return c.e.sliceAt(c.s, x, j) }))
				return
			case VStruct:
				for _, f := range x.F {
					check(f)
				}
				return
			case VArr:
				for _, f := range x.E {
					check(f)
				}
				return
			case VPtr:
				check(c.deref(x))
				return
			}
			for _, t := range c.flat(v) {
				if !c.e.termPinned(c.s, t) {
					ok = false
				}
			}
		}
		check(v)
		return VBool{BoolC(ok)}
	case "deferred":
		nm := c.eval(n.Args[0]).(VStr).T.Name
		p, ok := c.eval(n.Args[1]).(VPtr)
		if !ok || p.Obj == nil {
			panic(execError{"contract: deferred(name, ptr) needs a non-nil pointer"})
		}
		return VBool{App("deferred$"+nm, SBool, Int64C(int64(p.Obj.id)))}
	case "getenv":
		nm := c.eval(n.Args[0]).(VStr).T.Name
		return VStr{Var("env$"+nm, SStr)}
	case "api_is_rangechecker", "api_is_committer":
		a := c.deref(c.eval(n.Args[0]))
		op, ok := a.(VOpaque)
		if !ok || op.Kind != "api" {
			panic(execError{"contract: " + fname + " on non-api value"})
		}
		if fname == "api_is_rangechecker" {
			return VBool{op.Data.(*apiInfo).isRC}
		}
		return VBool{op.Data.(*apiInfo).isCommitter}
	}
	if m, ok := c.e.cs.Macros[fname]; ok {
		if len(m.Params) != len(n.Args) {
			panic(execError{"contract: wrong argument count for " + fname})
		}
		args := make([]Value, len(n.Args))
		for i, a := range n.Args {
			args[i] = c.eval(a)
		}
		if m.Opaque && !(c.e.curC != nil && c.e.curC.Flags["reveal:"+fname]) {
			var flat []*Term
			for _, a := range args {
				flat = append(flat, c.flat(a)...)
			}
			c.e.opaqueUsed[fname] = true
			return VInt{App("spec$"+fname, SInt, flat...)}
		}
		saved := map[string]Value{}
		had := map[string]bool{}
		for i, p := range m.Params {
			if v, ok := c.env[p]; ok {
				saved[p] = v
				had[p] = true
			}
			c.env[p] = args[i]
		}
		// macro bodies see only their parameters (and globals), not caller locals
		savedNames := c.names
		savedOldEnv := c.oldEnv
		c.names = nil
		c.oldEnv = nil
		r := c.eval(m.Body)
		c.names = savedNames
		c.oldEnv = savedOldEnv
		for _, p := range m.Params {
			if had[p] {
				c.env[p] = saved[p]
			} else {
				delete(c.env, p)
			}
		}
		return r
	}
	if rd, ok := c.e.cs.RecDefs[fname]; ok {
		return c.callRecDef(rd, n)
	}
	for _, lm := range c.e.cs.Lemmas {
		if lm.Name == fname {
			if len(lm.Params) != len(n.Args) {
				panic(execError{"contract: wrong argument count for lemma " + fname})
			}
			args := make([]Value, len(n.Args))
			for i, a := range n.Args {
				args[i] = c.eval(a)
			}
			saved := map[string]Value{}
			had := map[string]bool{}
			for i, p := range lm.Params {
				if v, ok := c.env[p]; ok {
					saved[p], had[p] = v, true
				}
				c.env[p] = args[i]
			}
			sn, so := c.names, c.oldEnv
			c.names, c.oldEnv = nil, nil
			r := c.eval(lm.Body)
			c.names, c.oldEnv = sn, so
			for _, p := range lm.Params {
				if had[p] {
					c.env[p] = saved[p]
				} else {
					delete(c.env, p)
				}
			}
			c.e.lemmasUsed[fname] = true
			return r
		}
	}
	if pf, ok := preludeFuns[fname]; ok {
		var args []*Term
		for _, a := range n.Args {
			v := c.eval(a)
			args = append(args, c.flat(v)...)
		}
		if len(args) != pf.Arity {
			panic(execError{fmt.Sprintf("contract: %s expects %d scalar arguments, got %d", fname, pf.Arity, len(args))})
		}
		t := App(fname, pf.Sort, args...)
		if pf.Sort == SBool {
			return VBool{t}
		}
		return VInt{t}
	}
	panic(execError{"contract: unknown function " + fname})
}

func rcKindOf(v Value) *Term {
	switch x := v.(type) {
	case VOpaque:
		if x.Kind == "rangechecker" {
			return x.Data.(*Term)
		}
		if x.Kind == "api" {
			return Int64C(0) // the api itself used as a native range checker
		}
	case VIface:
		if x.Dyn != nil && namedPath(x.Dyn) == "github.com/wormhole-foundation/example-near-light-client/goldilocks.bitDecompChecker" {
			return Int64C(2)
		}
		if x.V != nil {
			return rcKindOf(x.V)
		}
	}
	panic(execError{fmt.Sprintf("rckind of %T", v)})
}

func sameOpaque(a, b Value) bool {
	x, ok1 := a.(VOpaque)
	y, ok2 := b.(VOpaque)
	return ok1 && ok2 && x.Kind == y.Kind && x.ID == y.ID
}

// ---------------------------------------------------------------------------------
// recursive specification functions (compiled to SMT define-funs-rec)

func kindWidth(k string) (seq bool, width int) {
	if k == "[][]int" {
		return true, 1
	}
	if strings.HasPrefix(k, "[]") {
		seq = true
		k = k[2:]
	}
	switch k {
	case "int":
		return seq, 1
	case "QE":
		return seq, 2
	case "QE2":
		return seq, 4
	case "H":
		return seq, 1
	}
	if strings.HasPrefix(k, "[") && strings.HasSuffix(k, "]int") {
		n, err := strconv.Atoi(k[1 : len(k)-4])
		if err == nil {
			return seq, n
		}
	}
	panic(execError{"recdef: unknown kind " + k})
}

var usesLenCache = map[string]bool{}

func bodyUsesLen(rd *RecDef, param string) bool {
	key := rd.Name + "/" + param
	if v, ok := usesLenCache[key]; ok {
		return v
	}
	found := false
	ast.Inspect(rd.Body, func(n ast.Node) bool {
		if ce, ok := n.(*ast.CallExpr); ok {
			if id, ok := ce.Fun.(*ast.Ident); ok && id.Name == "len" && len(ce.Args) == 1 {
				if a, ok := ce.Args[0].(*ast.Ident); ok && a.Name == param {
					found = true
				}
			}
		}
		return !found
	})
	usesLenCache[key] = found
	return found
}

func (c *evalCtx) callRecDef(rd *RecDef, n *ast.CallExpr) Value {
	if len(n.Args) != len(rd.Params) {
		panic(execError{"contract: wrong argument count for " + rd.Name})
	}
	// concrete recursion arguments over concrete-shaped sequences: unfold the definition here
	vals := make([]Value, len(n.Args))
	concrete := true
	for i, a := range n.Args {
		vals[i] = c.deref(c.eval(a))
		seq, w := kindWidth(rd.Kinds[i])
		if rd.Kinds[i] == "[][]int" {
			concrete = false
		}
		if seq {
			sl, ok := vals[i].(VSlice)
			if !ok {
				concrete = false
			} else if (!sl.Len.IsConst() || !sl.Off.IsConst()) && bodyUsesLen(rd, rd.Params[i]) {
				// a sequence of symbolic length can still be unfolded over when the definition never asks for
				// its length (the recursion is then driven by the integer arguments alone)
				concrete = false
			}
		} else if w == 1 {
			if !c.intOf(vals[i]).IsConst() && rd.Kinds[i] == "int" && (isRecursionIndex(rd, i) || inTopCondition(rd, rd.Params[i])) {
				concrete = false
			}
		}
	}
	recCalls[rd.Name]++
	if recCalls[rd.Name]%200000 == 0 {
		fmt.Fprintf(os.Stderr, "govc: recdef %s unfolded %d times (concrete=%v)\n", rd.Name, recCalls[rd.Name], concrete)
	}
	if concrete && c.recDepth < 600 {
		saved := map[string]Value{}
		had := map[string]bool{}
		for i, p := range rd.Params {
			if v, ok := c.env[p]; ok {
				saved[p], had[p] = v, true
			}
			pv := vals[i]
			if sl, ok := pv.(VSlice); ok {
				// elements are presented as flat tuples, exactly as in the compiled definition
				psl := c.e.toPure(c.s, sl)
				_, w := kindWidth(rd.Kinds[i])
				inner := psl.Pure
				off := psl.Off
				cc := c
				pv = VSlice{Pure: &Seq{Sym: func(j *Term) Value {
					ev, ok := inner.at(Add(off, j))
					if !ok {
						panic(execError{"recdef: sequence index out of range during unfolding"})
					}
					fl := cc.flat(ev)
					if w == 1 {
						return VInt{fl[0]}
					}
					el := make([]Value, len(fl))
					for q := range fl {
						el[q] = VInt{fl[q]}
					}
					return VSpecTuple{el}
				}}, Off: Int64C(0), Len: psl.Len, Cap: psl.Len}
			} else if _, w := kindWidth(rd.Kinds[i]); w > 1 {
				fl := c.flat(pv)
				el := make([]Value, len(fl))
				for q := range fl {
					el[q] = VInt{fl[q]}
				}
				pv = VSpecTuple{el}
			}
			c.env[p] = pv
		}
		savedNames, savedOld := c.names, c.oldEnv
		c.names, c.oldEnv = nil, nil
		c.recDepth++
		r := c.eval(rd.Body)
		c.recDepth--
		c.names, c.oldEnv = savedNames, savedOld
		// a tuple-valued result is presented flat, exactly as the compiled definition returns it
		if _, w := kindWidth(rd.ResKind); w > 2 {
			if fl := c.flat(r); len(fl) == w {
				el := make([]Value, len(fl))
				for q := range fl {
					el[q] = VInt{fl[q]}
				}
				r = VSpecTuple{el}
			}
		}
		for _, p := range rd.Params {
			if had[p] {
				c.env[p] = saved[p]
			} else {
				delete(c.env, p)
			}
		}
		return r
	}
	c.e.compileRecDef(rd)
	var args []*Term
	for i := range n.Args {
		v := vals[i]
		seq, w := kindWidth(rd.Kinds[i])
		if rd.Kinds[i] == "[][]int" {
			sl, ok := v.(VSlice)
			if !ok {
				panic(execError{"contract: " + rd.Name + ": argument " + rd.Params[i] + " must be a slice of slices"})
			}
			a2, lens := c.seq2ToArrays(sl)
			args = append(args, a2, lens, sl.Len)
			continue
		}
		if seq {
			sl, ok := v.(VSlice)
			if !ok {
				panic(execError{"contract: " + rd.Name + ": argument " + rd.Params[i] + " must be a slice"})
			}
			arrs, off := c.seqToArrays(sl, w)
			args = append(args, arrs...)
			args = append(args, off, sl.Len)
			continue
		}
		fl := c.flat(v)
		if len(fl) != w {
			panic(execError{fmt.Sprintf("contract: %s: argument %s has %d leaves, want %d", rd.Name, rd.Params[i], len(fl), w)})
		}
		args = append(args, fl...)
	}
	_, rw := kindWidth(rd.ResKind)
	if rw == 1 {
		return VInt{App("rec$"+rd.Name+"$0", SInt, args...)}
	}
	el := make([]Value, rw)
	for k := range el {
		el[k] = VInt{App(fmt.Sprintf("rec$%s$%d", rd.Name, k), SInt, args...)}
	}
	return VSpecTuple{el}
}

// seq2ToArrays: a slice of integer slices as (two-level array, array of inner lengths).  Only sequences
// that already are such arrays (abstract inputs) are supported.
func (c *evalCtx) seq2ToArrays(sl VSlice) (*Term, *Term) {
	boundSeq++
	i := Bound(fmt.Sprintf("i$%d", boundSeq), SInt)
	boundSeq++
	j := Bound(fmt.Sprintf("j$%d", boundSeq), SInt)
	inner, ok := c.deref(c.withHeap(func() Value { return c.e.sliceAt(c.s, sl, i) })).(VSlice)
	if !ok {
		panic(execError{"contract: expected a slice of slices"})
	}
	fl := c.flat(c.withHeap(func() Value { return c.e.sliceAt(c.s, inner, j) }))
	if len(fl) != 1 {
		panic(execError{"contract: [][]int argument with non-scalar elements"})
	}
	lf := fl[0]
	if lf.Op == "select" && lf.Args[1] == j && lf.Args[0].Op == "select" && lf.Args[0].Args[1] == i && !containsTerm(lf.Args[0].Args[0], i) && !containsTerm(lf.Args[0].Args[0], j) {
		ln := inner.Len
		if ln.Op == "select" && ln.Args[1] == i && !containsTerm(ln.Args[0], i) {
			return lf.Args[0].Args[0], ln.Args[0]
		}
	}
	panic(execError{"contract: this slice of slices cannot be passed to a recursive specification function"})
}

// seqToArrays turns a slice into `width` SMT arrays indexed from 0.
func (c *evalCtx) seqToArrays(sl VSlice, width int) ([]*Term, *Term) {
	arrs, off := c.seqToArrays0(sl, width)
	return arrs, off
}

// seqToArrays0 returns arrays and the offset at which the sequence starts inside them.
func (c *evalCtx) seqToArrays0(sl VSlice, width int) ([]*Term, *Term) {
	boundSeq++
	j := Bound(fmt.Sprintf("j$%d", boundSeq), SInt)
	var elem Value
	func() {
		defer func() {
			if r := recover(); r != nil {
				if _, ok := r.(pathEnd); ok {
					elem = nil
					return
				}
				panic(r)
			}
		}()
		elem = c.withHeap(func() Value { return c.e.sliceAt(c.s, sl, j) })
	}()
	if elem == nil {
		// concrete-shaped slice: build store chains
		if !sl.Len.IsConst() {
			panic(execError{"contract: cannot convert slice to arrays"})
		}
		arrs := make([]*Term, width)
		for k := range arrs {
			arrs[k] = Fresh("seqarr", SArr)
		}
		for i := int64(0); i < sl.Len.Val.Int64(); i++ {
			fl := c.flat(c.withHeap(func() Value { return c.e.sliceAt(c.s, sl, Int64C(i)) }))
			for k := range arrs {
				arrs[k] = Store(arrs[k], Int64C(i), fl[k])
			}
		}
		return arrs, Int64C(0)
	}
	leaves := c.flat(elem)
	if len(leaves) != width {
		panic(execError{fmt.Sprintf("contract: sequence elements have %d leaves, want %d", len(leaves), width)})
	}
	arrs := make([]*Term, width)
	fast := true
	// fast path: element j is select(A, off + j) for one offset: pass the arrays and the offset
	var off *Term
	for k, lf := range leaves {
		if lf.Op == "select" && !containsTerm(lf.Args[0], j) {
			var o *Term
			switch {
			case lf.Args[1] == j:
				o = Int64C(0)
			case lf.Args[1] == Add(sl.Off, j):
				o = sl.Off
			}
			if o != nil && (off == nil || off == o) {
				off = o
				arrs[k] = lf.Args[0]
				continue
			}
		}
		fast = false
	}
	if fast {
		return arrs, off
	}
	// the same sequence value always gets the same array constants (otherwise two mentions of one
	// sequence would be two arrays that agree only on [0,len), which recursive specs cannot relate)
	seqObj := c.e.sliceSeq(c.s, sl)
	key := fmt.Sprintf("%p|%d|%d|%d", seqObj, sl.Off.id, sl.Len.id, width)
	if cached, ok := c.e.seqArrays[key]; ok {
		return cached, Int64C(0)
	}
	if os.Getenv("GOVC_DEBUG") != "" {
		fmt.Fprintf(os.Stderr, "seqarr miss key=%s obj=%v pure=%v len=%s off=%s\n", key, sl.Obj != nil, sl.Pure != nil, sl.Len, sl.Off)
	}
	// outer bound variables (the sequence is mentioned under a quantifier): the arrays become a family
	// indexed by that variable
	outer := map[*Term]bool{}
	var collect func(t *Term)
	seenT := map[*Term]bool{}
	collect = func(t *Term) {
		if seenT[t] {
			return
		}
		seenT[t] = true
		if t.Op == "bound" && t != j {
			outer[t] = true
		}
		for _, a := range t.Args {
			collect(a)
		}
	}
	for _, lf := range leaves {
		collect(lf)
	}
	collect(sl.Len)
	switch len(outer) {
	case 0:
		for k, lf := range leaves {
			arrs[k] = Fresh("seqarr", SArr)
			c.s.assume(Forall([]*Term{j}, Implies(And(Le(Int64C(0), j), Lt(j, sl.Len)), Eq(Select(arrs[k], j), lf))))
		}
		c.e.seqArrays[key] = arrs
	case 1:
		var ov *Term
		for t := range outer {
			ov = t
		}
		for k, lf := range leaves {
			fam := Fresh("seqarr2", SArr2)
			arrs[k] = Select(fam, ov)
			c.s.assume(Forall([]*Term{ov, j}, Implies(And(Le(Int64C(0), j), Lt(j, sl.Len)), Eq(Select(arrs[k], j), lf))))
		}
		// not cached: the key would have to include the bound variable
	default:
		panic(execError{"contract: a sequence under two nested quantifiers cannot be passed to a recursive specification function"})
	}
	return arrs, Int64C(0)
}

// isRecursionIndex: an int parameter that the body changes in its recursive calls (i+1, k-1).
// inTopCondition: the parameter occurs in the condition of the definition's top-level ite (the base-case test).
func inTopCondition(rd *RecDef, param string) bool {
	ce, ok := rd.Body.(*ast.CallExpr)
	if !ok {
		return false
	}
	if id, ok := ce.Fun.(*ast.Ident); !ok || id.Name != "ite" || len(ce.Args) < 1 {
		return false
	}
	found := false
	ast.Inspect(ce.Args[0], func(n ast.Node) bool {
		if id, ok := n.(*ast.Ident); ok && id.Name == param {
			found = true
		}
		return !found
	})
	return found
}

func isRecursionIndex(rd *RecDef, idx int) bool {
	found := false
	ast.Inspect(rd.Body, func(n ast.Node) bool {
		call, ok := n.(*ast.CallExpr)
		if !ok {
			return true
		}
		if id, ok := call.Fun.(*ast.Ident); ok && id.Name == rd.Name && idx < len(call.Args) {
			if a, ok := call.Args[idx].(*ast.Ident); !ok || a.Name != rd.Params[idx] {
				found = true
			}
		}
		return true
	})
	return found
}

var recCompiling = map[string]bool{}
var recCalls = map[string]int{}

// recFunDecls: declarations of uninterpreted functions needed by a recursive definition.
var recFunDecls = map[string]map[string]string{}

func (e *Engine) compileRecDef(rd *RecDef) {
	if rd.compiled || recCompiling[rd.Name] {
		return
	}
	recCompiling[rd.Name] = true
	defer func() { recCompiling[rd.Name] = false }()
	env := map[string]Value{}
	var decl []string
	for i, p := range rd.Params {
		seq, w := kindWidth(rd.Kinds[i])
		if rd.Kinds[i] == "[][]int" {
			a2 := Bound(p+"$a2", SArr2)
			lens := Bound(p+"$lens", SArr)
			ln := Bound(p+"$len", SInt)
			decl = append(decl, fmt.Sprintf("(%s (Array Int (Array Int Int)))", smtName(a2.Name)), fmt.Sprintf("(%s (Array Int Int))", smtName(lens.Name)), fmt.Sprintf("(%s Int)", smtName(ln.Name)))
			env[p] = VSlice{Pure: &Seq{Sym: func(i *Term) Value {
				row := Select(a2, i)
				rl := Select(lens, i)
				return VSlice{Pure: &Seq{Sym: func(j *Term) Value { return VInt{Select(row, j)} }}, Off: Int64C(0), Len: rl, Cap: rl}
			}}, Off: Int64C(0), Len: ln, Cap: ln}
			continue
		}
		if seq {
			arrs := make([]*Term, w)
			for k := range arrs {
				arrs[k] = Bound(fmt.Sprintf("%s$a%d", p, k), SArr)
				decl = append(decl, fmt.Sprintf("(%s (Array Int Int))", smtName(arrs[k].Name)))
			}
			offB := Bound(p+"$off", SInt)
			decl = append(decl, fmt.Sprintf("(%s Int)", smtName(offB.Name)))
			ln := Bound(p+"$len", SInt)
			decl = append(decl, fmt.Sprintf("(%s Int)", smtName(ln.Name)))
			width := w
			env[p] = VSlice{Pure: &Seq{Sym: func(i *Term) Value {
				if width == 1 {
					return VInt{Select(arrs[0], i)}
				}
				el := make([]Value, width)
				for k := range el {
					el[k] = VInt{Select(arrs[k], i)}
				}
				return VSpecTuple{el}
			}}, Off: offB, Len: ln, Cap: ln}
			continue
		}
		if w == 1 {
			b := Bound(p+"$v", SInt)
			decl = append(decl, fmt.Sprintf("(%s Int)", smtName(b.Name)))
			env[p] = VInt{b}
			continue
		}
		el := make([]Value, w)
		for k := range el {
			b := Bound(fmt.Sprintf("%s$v%d", p, k), SInt)
			decl = append(decl, fmt.Sprintf("(%s Int)", smtName(b.Name)))
			el[k] = VInt{b}
		}
		env[p] = VSpecTuple{el}
	}
	savedC := e.curC
	e.curC = nil
	c := &evalCtx{e: e, s: &State{heap: map[*Object]interface{}{}}, env: env}
	body := c.eval(rd.Body)
	e.curC = savedC
	comps := c.flat(body)
	_, rw := kindWidth(rd.ResKind)
	if len(comps) != rw {
		panic(execError{fmt.Sprintf("recdef %s: body has %d components, want %d", rd.Name, len(comps), rw)})
	}
	p := newPrinter()
	var sigs, bodies []string
	used := map[string]bool{}
	appNames(comps, used)
	defer func() {
		// uninterpreted functions mentioned in the body must be declared before the definition
		decls := map[string]string{}
		for k, v := range p.funs {
			if strings.HasPrefix(k, "rec$") {
				continue
			}
			if _, isPrelude := preludeFuns[k]; isPrelude {
				continue
			}
			decls[k] = v
		}
		recFunDecls["rec$"+rd.Name+"$0"] = decls
	}()
	for k := 0; k < rw; k++ {
		sigs = append(sigs, fmt.Sprintf("(%s (%s) Int)", smtName(fmt.Sprintf("rec$%s$%d", rd.Name, k)), strings.Join(decl, " ")))
		bodies = append(bodies, p.strLet(comps[k]))
	}
	def := "(define-funs-rec (" + strings.Join(sigs, " ") + ") (" + strings.Join(bodies, " ") + "))"
	var deps []string
	for u := range used {
		if !strings.HasPrefix(u, "rec$"+rd.Name+"$") {
			deps = append(deps, u)
		}
	}
	for k := 0; k < rw; k++ {
		name := fmt.Sprintf("rec$%s$%d", rd.Name, k)
		if k == 0 {
			definePrelude(name, -1, SInt, def)
			preludeDeps[name] = deps
		} else {
			definePrelude(name, -1, SInt, "")
			preludeDeps[name] = []string{fmt.Sprintf("rec$%s$0", rd.Name)}
		}
	}
	rd.compiled = true
	e.note("recursive spec function " + rd.Name + " is a definition by recursion on an index towards the sequence length (well-foundedness by inspection)")
}

func (e *Engine) varClass(name string) string {
	n := strings.TrimPrefix(name, "f$")
	best, bl := "constant", -1
	found := false
	for _, lc := range e.leafClass {
		if strings.HasPrefix(n, lc.prefix) && len(lc.prefix) > bl {
			best, bl, found = lc.class, len(lc.prefix), true
		}
	}
	if !found {
		return "other"
	}
	return best
}

// termPinned: the term mentions no prover-chosen (secret or hint) value, or the path condition
// contains an equality of the term with one that does not.
func (e *Engine) termPinned(s *State, t *Term) bool {
	free := func(t *Term) bool {
		for name := range freeVars(t) {
			cl := e.varClass(name)
			if cl == "secret" || strings.HasPrefix(name, "hint.") || cl == "other" && strings.HasPrefix(name, "ret.") {
				return false
			}
		}
		return true
	}
	if free(t) {
		return true
	}
	for _, h := range s.pc {
		if h.Op == "=" {
			if h.Args[0] == t && free(h.Args[1]) || h.Args[1] == t && free(h.Args[0]) {
				return true
			}
		}
	}
	return false
}

func (c *evalCtx) pushBound(name string) {
	if c.shadow == nil {
		c.shadow = map[string]int{}
	}
	c.shadow[name]++
}

func (c *evalCtx) popBound(name string) {
	if c.shadow[name] > 0 {
		c.shadow[name]--
	}
}
