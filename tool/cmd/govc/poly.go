package main

// A small exact decision procedure for the polynomial "witness" lemmas (`assert` clauses of
// contracts): goals of the form  H1 ∧ … ⇒ L = R  where, after
//   * replacing variables by their defining terms (hypotheses  v = t),
//   * replacing (div X c) by (X − (mod X c))/c   (exact for integers, c a positive constant),
//   * replacing (mod X c) by a constant where a hypothesis says so,
// L − R is the zero polynomial over the rationals in the remaining atoms (variables, mod terms,
// other opaque terms).  Every step is an equality that holds for all integers, so a "proved"
// answer is sound; failure to prove means nothing (the obligation then goes to the SMT solvers).
// This back end exists because nonlinear integer arithmetic in SMT solvers is unstable on
// exactly these identities.

import (
	"fmt"
	"math/big"
	"sort"
	"strings"
)

type monoKey string

type poly map[monoKey]*big.Rat

func polyConst(c *big.Int) poly {
	if c.Sign() == 0 {
		return poly{}
	}
	return poly{"": new(big.Rat).SetInt(c)}
}

func polyAtom(id int) poly { return poly{monoKey(fmt.Sprint(id)): big.NewRat(1, 1)} }

func (p poly) add(q poly, sign int64) poly {
	r := poly{}
	for k, v := range p {
		r[k] = new(big.Rat).Set(v)
	}
	for k, v := range q {
		t := new(big.Rat).Mul(v, big.NewRat(sign, 1))
		if e, ok := r[k]; ok {
			e.Add(e, t)
			if e.Sign() == 0 {
				delete(r, k)
			}
		} else if t.Sign() != 0 {
			r[k] = t
		}
	}
	return r
}

func mulKeys(a, b monoKey) monoKey {
	if a == "" {
		return b
	}
	if b == "" {
		return a
	}
	xs := append(strings.Split(string(a), "*"), strings.Split(string(b), "*")...)
	sort.Strings(xs)
	return monoKey(strings.Join(xs, "*"))
}

func (p poly) mul(q poly) poly {
	r := poly{}
	for k1, v1 := range p {
		for k2, v2 := range q {
			k := mulKeys(k1, k2)
			t := new(big.Rat).Mul(v1, v2)
			if e, ok := r[k]; ok {
				e.Add(e, t)
				if e.Sign() == 0 {
					delete(r, k)
				}
			} else {
				r[k] = t
			}
		}
	}
	return r
}

func (p poly) scale(c *big.Rat) poly {
	r := poly{}
	if c.Sign() == 0 {
		return r
	}
	for k, v := range p {
		r[k] = new(big.Rat).Mul(v, c)
	}
	return r
}

type polyCtx struct {
	subst    map[*Term]*Term // variable -> defining term
	modConst map[*Term]*big.Int
	memo     map[*Term]poly
	depth    int
	size     int
}

type polyAbort struct{}

func (c *polyCtx) norm(t *Term) poly {
	if p, ok := c.memo[t]; ok {
		return p
	}
	c.depth++
	if c.depth > 200 {
		panic(polyAbort{})
	}
	defer func() { c.depth-- }()
	var r poly
	switch t.Op {
	case "const":
		r = polyConst(t.Val)
	case "+":
		r = c.norm(t.Args[0]).add(c.norm(t.Args[1]), 1)
	case "-":
		r = c.norm(t.Args[0]).add(c.norm(t.Args[1]), -1)
	case "*":
		r = polyConst(bigOne)
		for _, a := range t.Args {
			r = r.mul(c.norm(a))
			if len(r) > 20000 {
				panic(polyAbort{})
			}
		}
	case "mod":
		if k, ok := c.modConst[t]; ok {
			r = polyConst(k)
		} else if d, ok := c.subst[t]; ok {
			r = c.norm(d)
		} else {
			r = polyAtom(t.id)
		}
	case "div":
		if t.Args[1].IsConst() && t.Args[1].Val.Sign() > 0 {
			x := c.norm(t.Args[0])
			m := c.norm(Mod(t.Args[0], t.Args[1]))
			r = x.add(m, -1).scale(new(big.Rat).SetFrac(bigOne, t.Args[1].Val))
		} else {
			r = polyAtom(t.id)
		}
	default:
		if d, ok := c.subst[t]; ok {
			r = c.norm(d)
		} else {
			r = polyAtom(t.id)
		}
	}
	c.memo[t] = r
	return r
}

// collectFacts flattens hypotheses and resolves implications whose antecedent is a known fact.
func collectFacts(hyps []*Term, extra []*Term) []*Term {
	known := map[*Term]bool{}
	var facts []*Term
	var add func(t *Term)
	add = func(t *Term) {
		if known[t] {
			return
		}
		if t.Op == "and" {
			for _, a := range t.Args {
				add(a)
			}
			return
		}
		known[t] = true
		facts = append(facts, t)
	}
	for _, h := range extra {
		add(h)
	}
	for _, h := range hyps {
		add(h)
	}
	for changed := true; changed; {
		changed = false
		for _, f := range append([]*Term(nil), facts...) {
			if f.Op == "=>" {
				ante := f.Args[0]
				ok := true
				var parts []*Term
				if ante.Op == "and" {
					parts = ante.Args
				} else {
					parts = []*Term{ante}
				}
				for _, p := range parts {
					if !known[p] {
						ok = false
					}
				}
				if ok && !known[f.Args[1]] {
					before := len(facts)
					add(f.Args[1])
					if len(facts) > before {
						changed = true
					}
				}
			}
		}
	}
	return facts
}

func containsTerm(t, x *Term) bool {
	if t == x {
		return true
	}
	for _, a := range t.Args {
		if containsTerm(a, x) {
			return true
		}
	}
	return false
}

// polyProve tries to prove the goal from the hypotheses; true means proved.
func polyProve(hyps []*Term, goal *Term) (ok bool) {
	defer func() {
		if r := recover(); r != nil {
			if _, is := r.(polyAbort); is {
				ok = false
				return
			}
			panic(r)
		}
	}()
	var goals []*Term
	var premises []*Term
	g := goal
	for g.Op == "=>" {
		premises = append(premises, g.Args[0])
		g = g.Args[1]
	}
	if g.Op == "and" {
		goals = g.Args
	} else {
		goals = []*Term{g}
	}
	for _, x := range goals {
		if x.Op != "=" || x.Args[0].Sort != SInt {
			return false
		}
	}
	facts := collectFacts(hyps, premises)
	ctx := &polyCtx{subst: map[*Term]*Term{}, modConst: map[*Term]*big.Int{}, memo: map[*Term]poly{}}
	for _, f := range facts {
		if f.Op != "=" || f.Args[0].Sort != SInt {
			continue
		}
		a, b := f.Args[0], f.Args[1]
		switch {
		case a.Op == "mod" && b.IsConst():
			ctx.modConst[a] = b.Val
		case b.Op == "mod" && a.IsConst():
			ctx.modConst[b] = a.Val
		case a.Op == "var" && !containsTerm(b, a):
			if _, dup := ctx.subst[a]; !dup {
				ctx.subst[a] = b
			}
		case b.Op == "var" && !containsTerm(a, b):
			if _, dup := ctx.subst[b]; !dup {
				ctx.subst[b] = a
			}
		}
	}
	for _, x := range goals {
		d := ctx.norm(x.Args[0]).add(ctx.norm(x.Args[1]), -1)
		if len(d) != 0 {
			return false
		}
	}
	return true
}
