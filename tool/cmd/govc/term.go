package main

// Term DAG with hash-consing, light simplification and SMT-LIB printing.
// All integers are mathematical (SMT Int).  Field operations are `mod R`,
// unsigned machine operations are `mod 2^N` — applied by the executor, not here.

import (
	"os"
	"fmt"
	"math/big"
	"sort"
	"strings"
)

type Sort int

const (
	SInt Sort = iota
	SBool
	SStr
	SArr  // Array Int Int
	SArr2 // Array Int (Array Int Int)
)

func (s Sort) String() string {
	switch s {
	case SInt:
		return "Int"
	case SBool:
		return "Bool"
	case SStr:
		return "String"
	case SArr:
		return "(Array Int Int)"
	case SArr2:
		return "(Array Int (Array Int Int))"
	}
	return "?"
}

type Term struct {
	Op   string // const, bconst, sconst, var, bound, app, + - * div mod neg, = < <= , and or not =>, ite, forall, exists
	Args []*Term
	Val  *big.Int
	B    bool
	Name string // var / app name / string const / bound var names (comma separated) for quantifiers
	Sort Sort
	key  string
	id   int
	// for app: argument sorts are derived from args; result sort = Sort
}

var (
	termTable = map[string]*Term{}
	termSeq   = 0
)

func resetTerms() {
	termTable = map[string]*Term{}
	termSeq = 0
}

func intern(t *Term) *Term {
	var sb strings.Builder
	sb.WriteString(t.Op)
	sb.WriteByte('|')
	switch t.Op {
	case "const":
		sb.WriteString(t.Val.String())
	case "bconst":
		if t.B {
			sb.WriteString("T")
		} else {
			sb.WriteString("F")
		}
	default:
		sb.WriteString(t.Name)
		sb.WriteByte('|')
		sb.WriteString(fmt.Sprint(int(t.Sort)))
		for _, a := range t.Args {
			sb.WriteByte(',')
			sb.WriteString(fmt.Sprint(a.id))
		}
	}
	k := sb.String()
	if e, ok := termTable[k]; ok {
		return e
	}
	termSeq++
	t.id = termSeq
	t.key = k
	termTable[k] = t
	return t
}

var (
	bigZero = big.NewInt(0)
	bigOne  = big.NewInt(1)
)

func IntC(v *big.Int) *Term  { return intern(&Term{Op: "const", Val: new(big.Int).Set(v), Sort: SInt}) }
func Int64C(v int64) *Term   { return IntC(big.NewInt(v)) }
func BoolC(b bool) *Term     { return intern(&Term{Op: "bconst", B: b, Sort: SBool}) }
func StrC(s string) *Term    { return intern(&Term{Op: "sconst", Name: s, Sort: SStr}) }
func Var(n string, s Sort) *Term { return intern(&Term{Op: "var", Name: n, Sort: s}) }
func Bound(n string, s Sort) *Term {
	return intern(&Term{Op: "bound", Name: n, Sort: s})
}

var freshCounter = map[string]int{}

func Fresh(prefix string, s Sort) *Term {
	freshCounter[prefix]++
	return Var(fmt.Sprintf("%s!%d", prefix, freshCounter[prefix]), s)
}

func (t *Term) IsConst() bool  { return t.Op == "const" }
func (t *Term) IsBConst() bool { return t.Op == "bconst" }
func (t *Term) IsTrue() bool   { return t.Op == "bconst" && t.B }
func (t *Term) IsFalse() bool  { return t.Op == "bconst" && !t.B }

func mk(op string, s Sort, args ...*Term) *Term {
	return intern(&Term{Op: op, Args: args, Sort: s})
}

func App(name string, s Sort, args ...*Term) *Term {
	return intern(&Term{Op: "app", Name: name, Args: args, Sort: s})
}

func Add(a, b *Term) *Term {
	if a.IsConst() && b.IsConst() {
		return IntC(new(big.Int).Add(a.Val, b.Val))
	}
	if a.IsConst() && a.Val.Sign() == 0 {
		return b
	}
	if b.IsConst() && b.Val.Sign() == 0 {
		return a
	}
	// (x + c1) + c2
	if b.IsConst() && a.Op == "+" && len(a.Args) == 2 && a.Args[1].IsConst() {
		return Add(a.Args[0], IntC(new(big.Int).Add(a.Args[1].Val, b.Val)))
	}
	if b.IsConst() && a.Op == "-" && len(a.Args) == 2 && a.Args[1].IsConst() {
		return Add(a.Args[0], IntC(new(big.Int).Sub(b.Val, a.Args[1].Val)))
	}
	if b.IsConst() && b.Val.Sign() < 0 {
		return mk("-", SInt, a, IntC(new(big.Int).Neg(b.Val)))
	}
	return mk("+", SInt, a, b)
}

func Sub(a, b *Term) *Term {
	if a.IsConst() && b.IsConst() {
		return IntC(new(big.Int).Sub(a.Val, b.Val))
	}
	if b.IsConst() {
		return Add(a, IntC(new(big.Int).Neg(b.Val)))
	}
	if a == b {
		return Int64C(0)
	}
	// (x + y) - x = y
	if a.Op == "+" && len(a.Args) == 2 {
		if a.Args[0] == b {
			return a.Args[1]
		}
		if a.Args[1] == b {
			return a.Args[0]
		}
	}
	return mk("-", SInt, a, b)
}

func Neg(a *Term) *Term { return Sub(Int64C(0), a) }

func Mul(a, b *Term) *Term {
	if a.IsConst() && b.IsConst() {
		return IntC(new(big.Int).Mul(a.Val, b.Val))
	}
	if a.IsConst() {
		a, b = b, a
	}
	if b.IsConst() {
		if b.Val.Sign() == 0 {
			return Int64C(0)
		}
		if b.Val.Cmp(bigOne) == 0 {
			return a
		}
	}
	return mk("*", SInt, a, b)
}

// Euclidean div/mod (SMT-LIB semantics); callers guarantee a positive divisor
// or wrap with Go truncation semantics themselves.
func Div(a, b *Term) *Term {
	if a.IsConst() && b.IsConst() && b.Val.Sign() != 0 {
		q, _ := new(big.Int).DivMod(a.Val, b.Val, new(big.Int))
		return IntC(q)
	}
	if b.IsConst() && b.Val.Cmp(bigOne) == 0 {
		return a
	}
	return mk("div", SInt, a, b)
}

func Mod(a, b *Term) *Term {
	if a.IsConst() && b.IsConst() && b.Val.Sign() != 0 {
		_, m := new(big.Int).DivMod(a.Val, b.Val, new(big.Int))
		return IntC(m)
	}
	if a.Op == "mod" && a.Args[1] == b {
		return a
	}
	return mk("mod", SInt, a, b)
}

func Eq(a, b *Term) *Term {
	if a == b {
		return BoolC(true)
	}
	if a.IsConst() && b.IsConst() {
		return BoolC(a.Val.Cmp(b.Val) == 0)
	}
	if a.IsBConst() && b.IsBConst() {
		return BoolC(a.B == b.B)
	}
	if a.Op == "sconst" && b.Op == "sconst" {
		return BoolC(a.Name == b.Name)
	}
	if a.Sort == SBool {
		if a.IsTrue() {
			return b
		}
		if b.IsTrue() {
			return a
		}
		if a.IsFalse() {
			return Not(b)
		}
		if b.IsFalse() {
			return Not(a)
		}
	}
	if a.id > b.id {
		a, b = b, a
	}
	return mk("=", SBool, a, b)
}

func Lt(a, b *Term) *Term {
	if a.IsConst() && b.IsConst() {
		return BoolC(a.Val.Cmp(b.Val) < 0)
	}
	if a == b {
		return BoolC(false)
	}
	return mk("<", SBool, a, b)
}

func Le(a, b *Term) *Term {
	if a.IsConst() && b.IsConst() {
		return BoolC(a.Val.Cmp(b.Val) <= 0)
	}
	if a == b {
		return BoolC(true)
	}
	return mk("<=", SBool, a, b)
}

func Not(a *Term) *Term {
	if a.IsBConst() {
		return BoolC(!a.B)
	}
	if a.Op == "not" {
		return a.Args[0]
	}
	return mk("not", SBool, a)
}

func And(ts ...*Term) *Term {
	var out []*Term
	for _, t := range ts {
		if t.IsTrue() {
			continue
		}
		if t.IsFalse() {
			return t
		}
		if t.Op == "and" {
			out = append(out, t.Args...)
			continue
		}
		out = append(out, t)
	}
	if len(out) == 0 {
		return BoolC(true)
	}
	if len(out) == 1 {
		return out[0]
	}
	return mk("and", SBool, out...)
}

func Or(ts ...*Term) *Term {
	var out []*Term
	for _, t := range ts {
		if t.IsFalse() {
			continue
		}
		if t.IsTrue() {
			return t
		}
		if t.Op == "or" {
			out = append(out, t.Args...)
			continue
		}
		out = append(out, t)
	}
	if len(out) == 0 {
		return BoolC(false)
	}
	if len(out) == 1 {
		return out[0]
	}
	return mk("or", SBool, out...)
}

func Implies(a, b *Term) *Term {
	if a.IsTrue() {
		return b
	}
	if a.IsFalse() || b.IsTrue() {
		return BoolC(true)
	}
	if b.IsFalse() {
		return Not(a)
	}
	return mk("=>", SBool, a, b)
}

func Ite(c, a, b *Term) *Term {
	if c.IsTrue() {
		return a
	}
	if c.IsFalse() {
		return b
	}
	if a == b {
		return a
	}
	if a.Sort == SBool {
		if a.IsTrue() && b.IsFalse() {
			return c
		}
		if a.IsFalse() && b.IsTrue() {
			return Not(c)
		}
	}
	return mk("ite", a.Sort, c, a, b)
}

func Select(a, i *Term) *Term {
	rs := SInt
	if a.Sort == SArr2 {
		rs = SArr
	}
	if a.Op == "store" {
		if a.Args[1] == i {
			return a.Args[2]
		}
		if a.Args[1].IsConst() && i.IsConst() {
			return Select(a.Args[0], i)
		}
	}
	return mk("select", rs, a, i)
}

func Store(a, i, v *Term) *Term { return mk("store", a.Sort, a, i, v) }

func Forall(bound []*Term, body *Term) *Term {
	if body.IsBConst() {
		return body
	}
	names := make([]string, len(bound))
	for i, b := range bound {
		names[i] = b.Name
	}
	return intern(&Term{Op: "forall", Name: strings.Join(names, ","), Args: []*Term{body}, Sort: SBool})
}

func Exists(bound []*Term, body *Term) *Term {
	if body.IsBConst() {
		return body
	}
	names := make([]string, len(bound))
	for i, b := range bound {
		names[i] = b.Name
	}
	return intern(&Term{Op: "exists", Name: strings.Join(names, ","), Args: []*Term{body}, Sort: SBool})
}

// Subst replaces variables/bound variables by terms (by identity of the key term).
func Subst(t *Term, m map[*Term]*Term) *Term {
	memo := map[*Term]*Term{}
	var rec func(t *Term) *Term
	rec = func(t *Term) *Term {
		if r, ok := m[t]; ok {
			return r
		}
		if len(t.Args) == 0 {
			return t
		}
		if r, ok := memo[t]; ok {
			return r
		}
		args := make([]*Term, len(t.Args))
		changed := false
		for i, a := range t.Args {
			args[i] = rec(a)
			if args[i] != a {
				changed = true
			}
		}
		var r *Term
		if !changed {
			r = t
		} else {
			r = rebuild(t, args)
		}
		memo[t] = r
		return r
	}
	return rec(t)
}

func rebuild(t *Term, args []*Term) *Term {
	switch t.Op {
	case "+":
		return Add(args[0], args[1])
	case "-":
		return Sub(args[0], args[1])
	case "*":
		return Mul(args[0], args[1])
	case "div":
		return Div(args[0], args[1])
	case "mod":
		return Mod(args[0], args[1])
	case "=":
		return Eq(args[0], args[1])
	case "<":
		return Lt(args[0], args[1])
	case "<=":
		return Le(args[0], args[1])
	case "not":
		return Not(args[0])
	case "and":
		return And(args...)
	case "or":
		return Or(args...)
	case "=>":
		return Implies(args[0], args[1])
	case "ite":
		return Ite(args[0], args[1], args[2])
	case "app":
		return appSimplify(t.Name, t.Sort, args)
	case "select":
		return Select(args[0], args[1])
	default:
		return intern(&Term{Op: t.Op, Name: t.Name, Args: args, Sort: t.Sort})
	}
}

// appSimplify folds applications of prelude functions on constants.
func appSimplify(name string, s Sort, args []*Term) *Term {
	if name == "pow2" && len(args) == 1 && args[0].IsConst() && args[0].Val.IsInt64() {
		k := args[0].Val.Int64()
		if k >= 0 && k <= 512 {
			return IntC(new(big.Int).Lsh(bigOne, uint(k)))
		}
	}
	return App(name, s, args...)
}

// ---------------------------------------------------------------------------------
// SMT printing

func smtInt(v *big.Int) string {
	if v.Sign() < 0 {
		return "(- " + new(big.Int).Neg(v).String() + ")"
	}
	return v.String()
}

func smtName(n string) string {
	ok := true
	for _, c := range n {
		if !(c >= 'a' && c <= 'z' || c >= 'A' && c <= 'Z' || c >= '0' && c <= '9' || c == '_' || c == '!' || c == '.' || c == '$' || c == '#' || c == '@') {
			ok = false
		}
	}
	if ok && n != "" && !(n[0] >= '0' && n[0] <= '9') {
		return n
	}
	return "|" + strings.ReplaceAll(n, "|", "_") + "|"
}

func smtString(s string) string {
	var sb strings.Builder
	sb.WriteByte('"')
	for _, r := range s {
		switch {
		case r == '"':
			sb.WriteString(`""`)
		case r < 32 || r > 126 || r == '\\':
			sb.WriteString(fmt.Sprintf("\\u{%x}", r))
		default:
			sb.WriteRune(r)
		}
	}
	sb.WriteByte('"')
	return sb.String()
}

type smtPrinter struct {
	refs   map[*Term]int
	names  map[*Term]string
	defs   []string
	vars   map[string]Sort
	funs   map[string]string // name -> declaration
	hasBnd map[*Term]bool
}

func newPrinter() *smtPrinter {
	return &smtPrinter{refs: map[*Term]int{}, names: map[*Term]string{}, vars: map[string]Sort{}, funs: map[string]string{}, hasBnd: map[*Term]bool{}}
}

func (p *smtPrinter) containsBound(t *Term) bool {
	if v, ok := p.hasBnd[t]; ok {
		return v
	}
	r := t.Op == "bound"
	for _, a := range t.Args {
		if p.containsBound(a) {
			r = true
		}
	}
	p.hasBnd[t] = r
	return r
}

func (p *smtPrinter) count(t *Term) {
	p.refs[t]++
	if p.refs[t] > 1 {
		return
	}
	for _, a := range t.Args {
		p.count(a)
	}
}

func (p *smtPrinter) str(t *Term) string {
	if n, ok := p.names[t]; ok {
		return n
	}
	var s string
	switch t.Op {
	case "const":
		return smtInt(t.Val)
	case "bconst":
		if t.B {
			return "true"
		}
		return "false"
	case "sconst":
		return smtString(t.Name)
	case "reglan":
		return t.Name
	case "var":
		p.vars[t.Name] = t.Sort
		return smtName(t.Name)
	case "bound":
		return smtName(t.Name)
	case "app":
		if _, isPrelude := preludeFuns[t.Name]; !isPrelude {
			if _, ok := p.funs[t.Name]; !ok {
				var as []string
				for _, a := range t.Args {
					as = append(as, a.Sort.String())
				}
				p.funs[t.Name] = fmt.Sprintf("(declare-fun %s (%s) %s)", smtName(t.Name), strings.Join(as, " "), t.Sort)
			}
		}
		if len(t.Args) == 0 {
			s = smtName(t.Name)
		} else {
			parts := []string{smtName(t.Name)}
			for _, a := range t.Args {
				parts = append(parts, p.str(a))
			}
			s = "(" + strings.Join(parts, " ") + ")"
		}
	case "forall", "exists":
		var bs []string
		for _, n := range strings.Split(t.Name, ",") {
			bs = append(bs, "("+smtName(n)+" Int)")
		}
		s = "(" + t.Op + " (" + strings.Join(bs, " ") + ") " + p.strLet(t.Args[0]) + ")"
	case "neg":
		s = "(- " + p.str(t.Args[0]) + ")"
	default:
		parts := []string{t.Op}
		for _, a := range t.Args {
			parts = append(parts, p.str(a))
		}
		s = "(" + strings.Join(parts, " ") + ")"
	}
	if p.refs[t] > 1 && len(s) > 24 && !p.containsBound(t) {
		n := fmt.Sprintf("n!%d", t.id)
		p.defs = append(p.defs, fmt.Sprintf("(define-fun %s () %s %s)", n, t.Sort, s))
		p.names[t] = n
		return n
	}
	return s
}

// strLet prints a term (possibly containing bound variables) with `let` bindings for shared
// subterms, so that DAG-shaped specification bodies are not expanded into trees.
func (p *smtPrinter) strLet(t *Term) string {
	refs := map[*Term]int{}
	var order []*Term
	var count func(t *Term)
	count = func(n *Term) {
		refs[n]++
		if refs[n] > 1 {
			return
		}
		if n.Op == "forall" || n.Op == "exists" {
			// a nested binder is printed (with its own lets) when reached; nothing inside it is hoisted
			order = append(order, n)
			return
		}
		for _, a := range n.Args {
			count(a)
		}
		order = append(order, n) // post-order
	}
	count(t)
	names := map[*Term]string{}
	saved := p.names
	p.names = names
	var binds []string
	for _, n := range order {
		if n == t || refs[n] < 2 || len(n.Args) == 0 || n.Op == "forall" || n.Op == "exists" {
			continue
		}
		// printing n uses the names of already bound subterms
		s := p.strNoShare(n)
		nm := fmt.Sprintf("l!%d", n.id)
		binds = append(binds, fmt.Sprintf("(let ((%s %s)) ", nm, s))
		names[n] = nm
	}
	body := p.strNoShare(t)
	p.names = saved
	return strings.Join(binds, "") + body + strings.Repeat(")", len(binds))
}

// strNoShare prints without creating top-level define-funs (used under binders).
func (p *smtPrinter) strNoShare(t *Term) string {
	savedRefs := p.refs
	p.refs = map[*Term]int{}
	defer func() { p.refs = savedRefs }()
	// temporarily hide t's own name so that its definition is printed
	if nm, ok := p.names[t]; ok {
		delete(p.names, t)
		defer func() { p.names[t] = nm }()
	}
	return p.str(t)
}

// RenderVC prints hypotheses and the negated goal as a complete SMT-LIB script.
// goal == nil: satisfiability of the hypotheses (cover obligations).
// skolemizeGoal: a universally quantified goal is proved for fresh constants, and every
// single-variable universal hypothesis is additionally instantiated at those constants (the
// instances the solvers' trigger-based instantiation most often fails to find: index terms with
// arithmetic in them).  Purely a presentation of the same validity problem.
func skolemizeGoal(hyps []*Term, goal *Term) ([]*Term, *Term) {
	var sks []*Term
	out := hyps
	for depth := 0; depth < 3; depth++ {
		if goal.Op == "forall" {
			m := map[*Term]*Term{}
			for _, n := range strings.Split(goal.Name, ",") {
				sk := Var("sk$"+n, SInt)
				m[Bound(n, SInt)] = sk
				sks = append(sks, sk)
			}
			goal = Subst(goal.Args[0], m)
			continue
		}
		if goal.Op == "=>" && len(sks) > 0 {
			out = append(append([]*Term(nil), out...), goal.Args[0])
			goal = goal.Args[1]
			continue
		}
		break
	}
	if len(sks) == 0 || len(sks) > 2 {
		return out, goal
	}
	var inst []*Term
	var visit func(h *Term)
	visit = func(h *Term) {
		switch h.Op {
		case "and":
			for _, a := range h.Args {
				visit(a)
			}
		case "forall":
			if !strings.Contains(h.Name, ",") {
				for _, sk := range sks {
					inst = append(inst, Subst(h.Args[0], map[*Term]*Term{Bound(h.Name, SInt): sk}))
				}
			}
		}
	}
	for _, h := range out {
		visit(h)
	}
	if len(inst) > 400 {
		inst = inst[:400]
	}
	return append(append([]*Term(nil), out...), inst...), goal
}

func RenderVC(hyps []*Term, goal *Term, wantModel bool) string {
	if goal != nil && os.Getenv("GOVC_NO_SKOLEM") == "" {
		hyps, goal = skolemizeGoal(hyps, goal)
	}
	p := newPrinter()
	all := append([]*Term(nil), hyps...)
	if goal != nil {
		all = append(all, goal)
	}
	lem := boundLemmas(hyps, all)
	for _, h := range all {
		p.count(h)
	}
	for _, l := range lem {
		p.count(l)
	}
	var body []string
	for _, h := range hyps {
		body = append(body, "(assert "+p.str(h)+")")
	}
	for _, l := range lem {
		body = append(body, "(assert "+p.str(l)+") ; bound-lemma instance")
	}
	if goal != nil {
		body = append(body, "(assert (not "+p.str(goal)+"))")
	}
	var sb strings.Builder
	if wantModel {
		sb.WriteString("(set-option :produce-models true)\n")
	}
	sb.WriteString("(set-logic ALL)\n")
	used := map[string]bool{}
	appNames(all, used)
	// uninterpreted functions first (recursive definitions in the prelude may mention them)
	for u := range used {
		for n, d := range recFunDecls[u] {
			if _, ok := p.funs[n]; !ok {
				p.funs[n] = d
			}
		}
	}
	var fn0 []string
	for n := range p.funs {
		fn0 = append(fn0, n)
	}
	sort.Strings(fn0)
	for _, n := range fn0 {
		sb.WriteString(p.funs[n] + "\n")
		if ax, ok := funAxioms[n]; ok {
			sb.WriteString(ax + "\n")
		}
	}
	sb.WriteString(preludeFor(used))
	var vn []string
	for n := range p.vars {
		vn = append(vn, n)
	}
	sort.Strings(vn)
	for _, n := range vn {
		sb.WriteString(fmt.Sprintf("(declare-const %s %s)\n", smtName(n), p.vars[n]))
		if ax, ok := funAxioms[n]; ok {
			sb.WriteString(ax + "\n")
		}
	}
	for _, d := range p.defs {
		sb.WriteString(d + "\n")
	}
	for _, b := range body {
		sb.WriteString(b + "\n")
	}
	sb.WriteString("(check-sat)\n")
	if wantModel {
		sb.WriteString("(get-model)\n")
	}
	return sb.String()
}

func appNames(ts []*Term, out map[string]bool) {
	seen := map[*Term]bool{}
	var rec func(t *Term)
	rec = func(t *Term) {
		if seen[t] {
			return
		}
		seen[t] = true
		if t.Op == "app" {
			out[t.Name] = true
		}
		for _, a := range t.Args {
			rec(a)
		}
	}
	for _, t := range ts {
		rec(t)
	}
	// dependencies between prelude definitions
	changed := true
	for changed {
		changed = false
		for n := range out {
			for _, d := range preludeDeps[n] {
				if !out[d] {
					out[d] = true
					changed = true
				}
			}
		}
	}
}

// freeVars returns the variable names of a term set.
func freeVars(ts ...*Term) map[string]Sort {
	seen := map[*Term]bool{}
	out := map[string]Sort{}
	var rec func(t *Term)
	rec = func(t *Term) {
		if seen[t] {
			return
		}
		seen[t] = true
		if t.Op == "var" {
			out[t.Name] = t.Sort
		}
		for _, a := range t.Args {
			rec(a)
		}
	}
	for _, t := range ts {
		rec(t)
	}
	return out
}

func termSize(ts ...*Term) int {
	seen := map[*Term]bool{}
	var rec func(t *Term)
	rec = func(t *Term) {
		if seen[t] {
			return
		}
		seen[t] = true
		for _, a := range t.Args {
			rec(a)
		}
	}
	for _, t := range ts {
		rec(t)
	}
	return len(seen)
}

func (t *Term) String() string {
	p := newPrinter()
	return p.str(t)
}
