package main

import (
	"math/big"
	"encoding/json"
	"fmt"
	"os"
	"path/filepath"
	"regexp"
	"sort"
	"strings"
)

var unsafeName = regexp.MustCompile(`[^A-Za-z0-9_.\-]+`)

type replayFile struct {
	Property    string            `json:"property"`
	Obligation  string            `json:"obligation"`
	Status      string            `json:"status"`
	Function    string            `json:"function"`
	Mode        string            `json:"mode"`
	Source      string            `json:"source"`
	Clause      string            `json:"clause"`
	Model       map[string]string `json:"model,omitempty"`
	SolverAns   map[string]string `json:"solver_answers,omitempty"`
	SolverOut   string            `json:"solver_output"`
	SMTFile     string            `json:"smt_file"`
	Replay      string            `json:"replay_on_real_code"`
	ReplayLog   string            `json:"replay_log,omitempty"`
	ReplayTest  string            `json:"replay_test,omitempty"`
	ReplayPkg   string            `json:"replay_pkg_dir,omitempty"`     // directory (under the module) the test is injected into
	ReplayMark  string            `json:"replay_reproduced_if,omitempty"` // output substring that means "reproduced"
	ReplayBD    bool              `json:"replay_bit_decomposition,omitempty"`
	Explanation string            `json:"explanation"`
}

// a check replays at most maxReplays failed obligations on the real code (each replay builds and runs a test)
const maxReplays = 12

var replaysDone int

// writeReplay stores everything known about a failed obligation under /verif/replays/<prop>/
// and, where a model exists and the function shape is supported, replays it on the real code.
func writeReplay(e *Engine, l *Loaded, prop string, g *groupResult, scratch string) (string, bool) {
	dir := filepath.Join(outRoot(), "replays", prop)
	os.MkdirAll(dir, 0o755)
	base := unsafeName.ReplaceAllString(g.Name, "_")
	path := filepath.Join(dir, base+".json")
	rf := replayFile{Property: prop, Obligation: g.Name, Status: g.Status, Function: g.Func, Mode: g.Mode, Source: g.Pos, Clause: g.Src}
	confirmed := false
	if ob := g.Failing; ob != nil {
		rf.Model = ob.Model
		rf.SolverAns = ob.allAnswers
		out := ob.solverOut
		if len(out) > 20000 {
			out = out[:20000] + "\n...[truncated]"
		}
		rf.SolverOut = out
		if ob.SMT != "" {
			// keep the VC next to the replay file
			if b, err := os.ReadFile(ob.SMT); err == nil {
				smt := filepath.Join(dir, base+".smt2")
				os.WriteFile(smt, b, 0o644)
				rf.SMTFile = smt
			}
		}
		replaysDone++
		if replaysDone > maxReplays && ((ob.Result == "sat" && ob.Model != nil) || ob.run != nil) {
			rf.Replay = fmt.Sprintf("not-replayed: only the first %d failed obligations of a check are replayed on the real code", maxReplays)
		} else if (ob.Result == "sat" && ob.Model != nil) || (ob.run != nil && ob.run.fn != nil && funcKey(ob.run.fn) == "gates.GateInstanceFromId") {
			ok, log, test, why := replayOnRealCode(e, l, ob, scratch)
			rf.ReplayLog = log
			rf.ReplayTest = test
			rf.ReplayPkg, rf.ReplayMark, rf.ReplayBD = lastReplay.pkg, lastReplay.mark, lastReplay.bitDecomp
			switch {
			case ok:
				rf.Replay = "confirmed: " + why
				confirmed = true
			case why != "":
				rf.Replay = "not-replayed: " + why
			}
		} else {
			rf.Replay = "no model: the solvers answered " + fmt.Sprint(ob.allAnswers)
		}
	} else if g.Kind == "scan" {
		rf.Replay = "structural obligation (no solver involved)"
	}
	if confirmed {
		rf.Explanation = "the obligation fails and the solver's counterexample was reproduced on the real code"
	} else {
		rf.Explanation = "the obligation is not discharged on this tree; no failing input was confirmed on the real code (no-failing-input-found)"
	}
	b, _ := json.MarshalIndent(rf, "", " ")
	os.WriteFile(path, b, 0o644)
	return path, confirmed
}

// writeReplayNote records a failed obligation that has no solver query behind it.
func writeReplayNote(prop string, g *groupResult, why string) (string, bool) {
	dir := filepath.Join(outRoot(), "replays", prop)
	os.MkdirAll(dir, 0o755)
	path := filepath.Join(dir, unsafeName.ReplaceAllString(g.Name, "_")+".json")
	rf := replayFile{Property: prop, Obligation: g.Name, Status: g.Status, Function: g.Func, Mode: g.Mode, Source: g.Pos, Clause: g.Src,
		Replay: "none", SolverOut: why,
		Explanation: "the obligation is not discharged on this tree; no failing input was confirmed on the real code (no-failing-input-found)"}
	b, _ := json.MarshalIndent(rf, "", " ")
	os.WriteFile(path, b, 0o644)
	return path, false
}

func modelSummary(m map[string]string) string {
	var ks []string
	for k := range m {
		ks = append(ks, k)
	}
	sort.Strings(ks)
	var sb strings.Builder
	for _, k := range ks {
		sb.WriteString(k + "=" + m[k] + " ")
	}
	return sb.String()
}

// replayOnRealCode dispatches on the kind of function the failed obligation belongs to.
func replayOnRealCode(e *Engine, l *Loaded, ob *Oblig, scratch string) (bool, string, string, string) {
	if ob.run == nil || ob.run.fn == nil {
		return false, "", "", "no run information for this obligation"
	}
	ct := l.bound[ob.run.fn]
	if ct == nil {
		return false, "", "", "no contract"
	}
	if ct.Kind == "circuit" {
		if ob.Kind == "pre" {
			return false, "", "", "the failed obligation is a callee precondition at a call site: the counterexample is a state reaching the call, not an input accepted by this function alone"
		}
		return e.replayCircuit(l, ob, scratch)
	}
	if funcKey(ob.run.fn) == "gates.GateInstanceFromId" {
		return e.replayGateId(l, ob, scratch)
	}
	return false, "", "", "no replayer for this plain function (the model is recorded above)"
}

// cmdReplay prints a replay file and, when it carries a generated test, runs it again
// against /repo's current working tree.
func cmdReplay(path string) int {
	b, err := os.ReadFile(path)
	if err != nil {
		fatalf("govc replay: %v", err)
	}
	var rf replayFile
	if err := json.Unmarshal(b, &rf); err != nil {
		fatalf("govc replay: %v", err)
	}
	fmt.Printf("property   %s\nobligation %s (%s)\nsource     %s\nclause     %s\nreplay     %s\n", rf.Property, rf.Obligation, rf.Status, rf.Source, rf.Clause, rf.Replay)
	if len(rf.Model) > 0 {
		fmt.Println("model      " + modelSummary(rf.Model))
	}
	if rf.ReplayTest != "" {
		ok, log := runReplayTest(rf)
		fmt.Println(log)
		if ok {
			fmt.Println("REPLAY: violation reproduced on the current tree")
			return 1
		}
		fmt.Println("REPLAY: not reproduced on the current tree")
	}
	return 0
}

// lastReplay: how the most recent generated replay test is run again (filled by the replayers).
var lastReplay struct {
	pkg       string
	mark      string
	bitDecomp bool
}

// runReplayTest injects the recorded test into the current working tree of the module (go test -overlay) and
// reports whether the violation is reproduced there.
func runReplayTest(rf replayFile) (bool, string) {
	if rf.ReplayPkg == "" || rf.ReplayMark == "" {
		return false, "no executable replay recorded"
	}
	dir, err := os.MkdirTemp("", "govc-replay")
	if err != nil {
		return false, err.Error()
	}
	defer os.RemoveAll(dir)
	pkgDir := filepath.Join(repoModuleDir, rf.ReplayPkg)
	testFile := filepath.Join(dir, "zz_govc_replay_test.go")
	os.WriteFile(testFile, []byte(rf.ReplayTest), 0o644)
	ov := map[string]map[string]string{"Replace": {filepath.Join(pkgDir, "zz_govc_replay_test.go"): testFile}}
	ovb, _ := json.Marshal(ov)
	ovFile := filepath.Join(dir, "ov.json")
	os.WriteFile(ovFile, ovb, 0o644)
	var rc *big.Int
	if rf.ReplayBD {
		rc = big.NewInt(2)
	}
	out, _ := runGoTest(pkgDir, ovFile, rc)
	return strings.Contains(out, rf.ReplayMark), out
}
