package main

// Regular expressions of the code (regexp.MustCompile literals) and of the contracts (`inre`)
// as SMT-LIB RegLan terms.
//
//   * goRegexToSMT translates Go (RE2) syntax, parsed with regexp/syntax exactly as
//     regexp.Compile does, into a RegLan term.  Anchors are only supported at the two ends of
//     the pattern; anything else (word boundaries, non-greedy markers do not change the language
//     and are accepted, flags other than the default) is outside reach.
//   * reDecompose splits a pattern that is a top-level concatenation into pieces, so that a
//     successful FindStringSubmatch can be described as
//         s = pre ++ piece_0 ++ … ++ piece_n ++ post,  piece_i ∈ L(piece_i),
//     with the capture groups being some of the pieces.  Go returns the leftmost-first match;
//     the model leaves the choice among all decompositions open (an over-approximation of the
//     set of behaviours: a contract proved for every decomposition holds for Go's).

import (
	"fmt"
	"regexp/syntax"
	"strings"
	"unicode"
)

type rePiece struct {
	re      string // RegLan
	capture int    // capture index (>0) or 0
	name    string
	lit     string // non-empty: the piece is this literal
	greedy  string // non-empty: the piece is a greedy repetition (x+ or x*) of this one-character class
}

type compiledRe struct {
	pattern     string
	unanchored  string // RegLan of  Σ* r Σ*  (respecting ^ and $ at the ends)
	full        string // RegLan of r alone
	pieces      []rePiece
	decomposed  bool
	startAnchor bool
	endAnchor   bool
	names       []string // SubexpNames
}

func reLit(s string) string {
	return "(str.to_re " + smtString(s) + ")"
}

func reClass(runes []rune) (string, error) {
	var parts []string
	for i := 0; i+1 < len(runes); i += 2 {
		lo, hi := runes[i], runes[i+1]
		if hi > unicode.MaxRune {
			hi = unicode.MaxRune
		}
		if lo == hi {
			parts = append(parts, reLit(string(lo)))
		} else {
			parts = append(parts, fmt.Sprintf("(re.range %s %s)", smtString(string(lo)), smtString(string(hi))))
		}
	}
	switch len(parts) {
	case 0:
		return "re.none", nil
	case 1:
		return parts[0], nil
	}
	return "(re.union " + strings.Join(parts, " ") + ")", nil
}

func reToSMT(r *syntax.Regexp) (string, error) {
	switch r.Op {
	case syntax.OpNoMatch:
		return "re.none", nil
	case syntax.OpEmptyMatch:
		return reLit(""), nil
	case syntax.OpLiteral:
		if r.Flags&syntax.FoldCase != 0 {
			return "", fmt.Errorf("case-insensitive literal")
		}
		return reLit(string(r.Rune)), nil
	case syntax.OpCharClass:
		return reClass(r.Rune)
	case syntax.OpAnyCharNotNL:
		return "(re.diff re.allchar " + reLit("\n") + ")", nil
	case syntax.OpAnyChar:
		return "re.allchar", nil
	case syntax.OpCapture:
		return reToSMT(r.Sub[0])
	case syntax.OpStar, syntax.OpPlus, syntax.OpQuest:
		s, err := reToSMT(r.Sub[0])
		if err != nil {
			return "", err
		}
		op := map[syntax.Op]string{syntax.OpStar: "re.*", syntax.OpPlus: "re.+", syntax.OpQuest: "re.opt"}[r.Op]
		return "(" + op + " " + s + ")", nil
	case syntax.OpRepeat:
		s, err := reToSMT(r.Sub[0])
		if err != nil {
			return "", err
		}
		if r.Max < 0 {
			return fmt.Sprintf("(re.++ ((_ re.loop %d %d) %s) (re.* %s))", r.Min, r.Min, s, s), nil
		}
		return fmt.Sprintf("((_ re.loop %d %d) %s)", r.Min, r.Max, s), nil
	case syntax.OpConcat, syntax.OpAlternate:
		var parts []string
		for _, sub := range r.Sub {
			s, err := reToSMT(sub)
			if err != nil {
				return "", err
			}
			parts = append(parts, s)
		}
		if len(parts) == 1 {
			return parts[0], nil
		}
		op := "re.++"
		if r.Op == syntax.OpAlternate {
			op = "re.union"
		}
		return "(" + op + " " + strings.Join(parts, " ") + ")", nil
	}
	return "", fmt.Errorf("regex operator %v is outside the supported subset", r.Op)
}

var reCache = map[string]*compiledRe{}

func compileGoRegex(pattern string) (*compiledRe, error) {
	if c, ok := reCache[pattern]; ok {
		return c, nil
	}
	r, err := syntax.Parse(pattern, syntax.Perl)
	if err != nil {
		return nil, err
	}
	names := r.CapNames()
	c := &compiledRe{pattern: pattern, names: names}
	// top-level pieces
	var subs []*syntax.Regexp
	if r.Op == syntax.OpConcat {
		subs = r.Sub
	} else {
		subs = []*syntax.Regexp{r}
	}
	if len(subs) > 0 && subs[0].Op == syntax.OpBeginText {
		c.startAnchor = true
		subs = subs[1:]
	}
	if len(subs) > 0 && subs[len(subs)-1].Op == syntax.OpEndText {
		c.endAnchor = true
		subs = subs[:len(subs)-1]
	}
	c.decomposed = true
	var parts []string
	for _, sub := range subs {
		s, err := reToSMT(sub)
		if err != nil {
			return nil, fmt.Errorf("pattern %q: %v", pattern, err)
		}
		parts = append(parts, s)
		p := rePiece{re: s}
		switch {
		case sub.Op == syntax.OpLiteral && sub.Flags&syntax.FoldCase == 0:
			p.lit = string(sub.Rune)
		case sub.Op == syntax.OpCapture:
			p.capture = sub.Cap
			p.name = sub.Name
			if hasCapture(sub.Sub[0]) {
				c.decomposed = false
			}
			p.greedy = greedyClass(sub.Sub[0])
		default:
			if hasCapture(sub) {
				c.decomposed = false
			}
			p.greedy = greedyClass(sub)
		}
		c.pieces = append(c.pieces, p)
	}
	switch len(parts) {
	case 0:
		c.full = reLit("")
	case 1:
		c.full = parts[0]
	default:
		c.full = "(re.++ " + strings.Join(parts, " ") + ")"
	}
	un := []string{}
	if !c.startAnchor {
		un = append(un, "re.all")
	}
	un = append(un, c.full)
	if !c.endAnchor {
		un = append(un, "re.all")
	}
	if len(un) == 1 {
		c.unanchored = un[0]
	} else {
		c.unanchored = "(re.++ " + strings.Join(un, " ") + ")"
	}
	if a, ok := alphaOf(r); ok {
		reAlpha[c.full] = a
	}
	reCache[pattern] = c
	return c, nil
}

// greedyClass: for a greedy x+ / x* over a single-character class x, the RegLan of x.
func greedyClass(r *syntax.Regexp) string {
	if (r.Op != syntax.OpPlus && r.Op != syntax.OpStar) || r.Flags&syntax.NonGreedy != 0 {
		return ""
	}
	switch r.Sub[0].Op {
	case syntax.OpCharClass, syntax.OpAnyCharNotNL, syntax.OpAnyChar:
		s, err := reToSMT(r.Sub[0])
		if err == nil {
			return s
		}
	}
	return ""
}

func hasCapture(r *syntax.Regexp) bool {
	if r.Op == syntax.OpCapture {
		return true
	}
	for _, s := range r.Sub {
		if hasCapture(s) {
			return true
		}
	}
	return false
}

func Reglan(s string) *Term { return intern(&Term{Op: "reglan", Name: s, Sort: SStr}) }

func StrInRe(s *Term, re string) *Term {
	return intern(&Term{Op: "str.in_re", Args: []*Term{s, Reglan(re)}, Sort: SBool})
}

func StrConcat(parts ...*Term) *Term {
	var flat []*Term
	for _, p := range parts {
		if p.Op == "sconst" && p.Name == "" {
			continue
		}
		if n := len(flat); n > 0 && flat[n-1].Op == "sconst" && p.Op == "sconst" {
			flat[n-1] = StrC(flat[n-1].Name + p.Name)
			continue
		}
		flat = append(flat, p)
	}
	switch len(flat) {
	case 0:
		return StrC("")
	case 1:
		return flat[0]
	}
	return intern(&Term{Op: "str.++", Args: flat, Sort: SStr})
}

func StrToInt(s *Term) *Term { return intern(&Term{Op: "str.to_int", Args: []*Term{s}, Sort: SInt}) }

const reDigits = `(re.+ (re.range "0" "9"))`

// matchModel describes  FindStringSubmatch(s)  for a compiled pattern: the match predicate and,
// on the matching side, the submatch strings (index 0 is the whole match) with the facts
// relating them to s.
func (c *compiledRe) matchPred(s *Term) *Term { return StrInRe(s, c.unanchored) }

func (c *compiledRe) submatches(s *Term) ([]*Term, []*Term, error) {
	if !c.decomposed {
		return nil, nil, fmt.Errorf("pattern %q: capture groups below the top-level concatenation", c.pattern)
	}
	var facts []*Term
	var seq []*Term
	pre, post := StrC(""), StrC("")
	if !c.startAnchor {
		pre = Fresh("re.pre", SStr)
	}
	if !c.endAnchor {
		post = Fresh("re.post", SStr)
	}
	groups := make([]*Term, len(c.names))
	var mid []*Term
	for _, p := range c.pieces {
		var t *Term
		if p.lit != "" {
			t = StrC(p.lit)
		} else {
			t = Fresh("re.piece", SStr)
			facts = append(facts, StrInRe(t, p.re))
		}
		if p.capture > 0 && p.capture < len(groups) {
			groups[p.capture] = t
		}
		mid = append(mid, t)
	}
	// a greedy one-character repetition at the very end of an unanchored pattern consumes every
	// character it can: what follows the match does not start with a character of the class
	// (Go's leftmost-first matching: after the last piece the match succeeds whatever follows, and a
	// greedy loop prefers one more iteration)
	if n := len(c.pieces); n > 0 && c.pieces[n-1].greedy != "" && !c.endAnchor {
		facts = append(facts, Not(StrInRe(post, "(re.++ "+c.pieces[n-1].greedy+" re.all)")))
	}
	whole := StrConcat(mid...)
	groups[0] = whole
	seq = append(seq, pre)
	seq = append(seq, mid...)
	seq = append(seq, post)
	facts = append(facts, Eq(s, StrConcat(seq...)))
	for i, g := range groups {
		if g == nil {
			return nil, nil, fmt.Errorf("pattern %q: group %d not at top level", c.pattern, i)
		}
	}
	return groups, facts, nil
}

// ---------------------------------------------------------------------------------
// Structured matching.  When the subject string is a concatenation of literals and of
// variables whose alphabet is known from a path fact  str.in_re(v, R), and the pattern is a
// sequence of literals and greedy one-character-class repetitions each followed by a literal
// that starts outside the class ("delimited" pieces), the match attempt at position 0 is a
// deterministic walk.  If it succeeds, position 0 is the leftmost match, the delimiter property
// makes the decomposition at that position unique, and FindStringSubmatch returns exactly the
// submatches of the walk (Go semantics: leftmost-first).  Anything the walk cannot decide
// falls back to the solver-based model.

type alphabet struct {
	ranges   []rune // sorted, merged pairs
	nullable bool
}

func normRanges(r []rune) []rune {
	type pr struct{ lo, hi rune }
	var ps []pr
	for i := 0; i+1 < len(r); i += 2 {
		ps = append(ps, pr{r[i], r[i+1]})
	}
	for i := 1; i < len(ps); i++ {
		for j := i; j > 0 && ps[j].lo < ps[j-1].lo; j-- {
			ps[j], ps[j-1] = ps[j-1], ps[j]
		}
	}
	var out []rune
	for _, p := range ps {
		if n := len(out); n > 0 && p.lo <= out[n-1]+1 {
			if p.hi > out[n-1] {
				out[n-1] = p.hi
			}
			continue
		}
		out = append(out, p.lo, p.hi)
	}
	return out
}

func (a alphabet) has(c rune) bool {
	for i := 0; i+1 < len(a.ranges); i += 2 {
		if a.ranges[i] <= c && c <= a.ranges[i+1] {
			return true
		}
	}
	return false
}

func (a alphabet) subsetOf(b alphabet) bool {
	for i := 0; i+1 < len(a.ranges); i += 2 {
		ok := false
		for j := 0; j+1 < len(b.ranges); j += 2 {
			if b.ranges[j] <= a.ranges[i] && a.ranges[i+1] <= b.ranges[j+1] {
				ok = true
			}
		}
		if !ok {
			return false
		}
	}
	return true
}

func (a alphabet) disjoint(b alphabet) bool {
	for i := 0; i+1 < len(a.ranges); i += 2 {
		for j := 0; j+1 < len(b.ranges); j += 2 {
			if a.ranges[i] <= b.ranges[j+1] && b.ranges[j] <= a.ranges[i+1] {
				return false
			}
		}
	}
	return true
}

// alphaOf: the characters that can occur in words of L(r), and whether the empty word is in L(r).
func alphaOf(r *syntax.Regexp) (alphabet, bool) {
	switch r.Op {
	case syntax.OpEmptyMatch:
		return alphabet{nullable: true}, true
	case syntax.OpLiteral:
		if r.Flags&syntax.FoldCase != 0 {
			return alphabet{}, false
		}
		var rs []rune
		for _, c := range r.Rune {
			rs = append(rs, c, c)
		}
		return alphabet{ranges: normRanges(rs), nullable: len(r.Rune) == 0}, true
	case syntax.OpCharClass:
		return alphabet{ranges: normRanges(append([]rune(nil), r.Rune...))}, true
	case syntax.OpAnyChar, syntax.OpAnyCharNotNL:
		return alphabet{ranges: []rune{0, unicode.MaxRune}}, true
	case syntax.OpCapture:
		return alphaOf(r.Sub[0])
	case syntax.OpStar, syntax.OpQuest:
		a, ok := alphaOf(r.Sub[0])
		a.nullable = true
		return a, ok
	case syntax.OpPlus:
		return alphaOf(r.Sub[0])
	case syntax.OpRepeat:
		a, ok := alphaOf(r.Sub[0])
		if r.Min == 0 {
			a.nullable = true
		}
		return a, ok
	case syntax.OpConcat, syntax.OpAlternate:
		var rs []rune
		nullable := r.Op == syntax.OpConcat
		for _, s := range r.Sub {
			a, ok := alphaOf(s)
			if !ok {
				return alphabet{}, false
			}
			rs = append(rs, a.ranges...)
			if r.Op == syntax.OpConcat {
				nullable = nullable && a.nullable
			} else {
				nullable = nullable || a.nullable
			}
		}
		return alphabet{ranges: normRanges(rs), nullable: nullable}, true
	}
	return alphabet{}, false
}

// reAlpha: alphabet of a RegLan text produced by compileGoRegex (for full-match languages).
var reAlpha = map[string]alphabet{}

type segment struct {
	lit   string // literal (when v == nil)
	v     *Term  // string variable
	alpha alphabet
}

type walkPiece struct {
	lit   string
	class alphabet
	min   int
	cap   int
}

// walkPieces: the pattern as delimited pieces, or false.
func (c *compiledRe) walkPieces() ([]walkPiece, bool) {
	r, err := syntax.Parse(c.pattern, syntax.Perl)
	if err != nil {
		return nil, false
	}
	var subs []*syntax.Regexp
	if r.Op == syntax.OpConcat {
		subs = r.Sub
	} else {
		subs = []*syntax.Regexp{r}
	}
	if len(subs) > 0 && subs[0].Op == syntax.OpBeginText {
		subs = subs[1:]
	}
	endAnch := false
	if len(subs) > 0 && subs[len(subs)-1].Op == syntax.OpEndText {
		endAnch = true
		subs = subs[:len(subs)-1]
	}
	_ = endAnch
	var out []walkPiece
	for _, sub := range subs {
		cap := 0
		if sub.Op == syntax.OpCapture {
			cap = sub.Cap
			sub = sub.Sub[0]
		}
		switch {
		case sub.Op == syntax.OpLiteral && sub.Flags&syntax.FoldCase == 0:
			out = append(out, walkPiece{lit: string(sub.Rune), cap: cap})
		case (sub.Op == syntax.OpPlus || sub.Op == syntax.OpStar) && sub.Flags&syntax.NonGreedy == 0:
			in := sub.Sub[0]
			if in.Op != syntax.OpCharClass && in.Op != syntax.OpAnyChar && in.Op != syntax.OpAnyCharNotNL {
				return nil, false
			}
			a, ok := alphaOf(in)
			if !ok {
				return nil, false
			}
			if in.Op == syntax.OpAnyCharNotNL {
				a = alphabet{ranges: []rune{0, '\n' - 1, '\n' + 1, unicode.MaxRune}}
			}
			min := 0
			if sub.Op == syntax.OpPlus {
				min = 1
			}
			out = append(out, walkPiece{class: a, min: min, cap: cap})
		default:
			return nil, false
		}
	}
	// delimiter property
	for i, p := range out {
		if p.lit != "" || i+1 == len(out) {
			continue
		}
		nx := out[i+1]
		if nx.lit == "" || p.class.has([]rune(nx.lit)[0]) {
			return nil, false
		}
	}
	return out, true
}

// structMatch walks the pattern over the segments from position 0.
func (c *compiledRe) structMatch(segs []segment) ([]*Term, bool) {
	pieces, ok := c.walkPieces()
	if !ok {
		return nil, false
	}
	// flatten literals to runes for partial consumption
	type cur struct {
		seg int
		off int // rune offset inside a literal segment
	}
	lits := make([][]rune, len(segs))
	for i, sg := range segs {
		if sg.v == nil {
			lits[i] = []rune(sg.lit)
		}
	}
	pos := cur{}
	norm := func() {
		for pos.seg < len(segs) && segs[pos.seg].v == nil && pos.off >= len(lits[pos.seg]) {
			pos.seg++
			pos.off = 0
		}
	}
	groups := make([]*Term, len(c.names))
	var whole []*Term
	for _, p := range pieces {
		var got []*Term
		if p.lit != "" {
			for _, ch := range []rune(p.lit) {
				norm()
				if pos.seg >= len(segs) || segs[pos.seg].v != nil || lits[pos.seg][pos.off] != ch {
					return nil, false
				}
				pos.off++
			}
			got = []*Term{StrC(p.lit)}
		} else {
			count := 0
			for {
				norm()
				if pos.seg >= len(segs) {
					break
				}
				sg := segs[pos.seg]
				if sg.v != nil {
					if sg.alpha.subsetOf(p.class) {
						got = append(got, sg.v)
						if !sg.alpha.nullable {
							count++
						}
						pos.seg++
						pos.off = 0
						continue
					}
					if sg.alpha.disjoint(p.class) && !sg.alpha.nullable {
						break
					}
					return nil, false // cannot tell where the run ends
				}
				ch := lits[pos.seg][pos.off]
				if !p.class.has(ch) {
					break
				}
				got = append(got, StrC(string(ch)))
				count++
				pos.off++
			}
			if count < p.min {
				return nil, false
			}
		}
		t := StrConcat(got...)
		whole = append(whole, t)
		if p.cap > 0 && p.cap < len(groups) {
			groups[p.cap] = t
		}
	}
	if c.endAnchor {
		norm()
		if pos.seg < len(segs) {
			return nil, false
		}
	}
	groups[0] = StrConcat(whole...)
	for _, g := range groups {
		if g == nil {
			return nil, false
		}
	}
	return groups, true
}

// segmentsOf describes a string term as literals and variables of known alphabet, using the
// membership facts and variable definitions of the path condition.
func segmentsOf(pc []*Term, t *Term) ([]segment, bool) {
	alpha := map[*Term]alphabet{}
	defs := map[*Term]*Term{}
	var scan func(f *Term)
	scan = func(f *Term) {
		switch f.Op {
		case "and":
			for _, a := range f.Args {
				scan(a)
			}
		case "str.in_re":
			if a, ok := reAlpha[f.Args[1].Name]; ok && f.Args[0].Op == "var" {
				if _, dup := alpha[f.Args[0]]; !dup {
					alpha[f.Args[0]] = a
				}
			}
		case "=":
			if f.Args[0].Sort == SStr {
				a, b := f.Args[0], f.Args[1]
				if b.Op == "var" && a.Op != "var" {
					a, b = b, a
				}
				if a.Op == "var" {
					if _, dup := defs[a]; !dup {
						defs[a] = b
					}
				}
			}
		}
	}
	for _, f := range pc {
		scan(f)
	}
	var out []segment
	var add func(x *Term, depth int) bool
	add = func(x *Term, depth int) bool {
		if depth > 8 {
			return false
		}
		switch x.Op {
		case "sconst":
			out = append(out, segment{lit: x.Name})
			return true
		case "str.++":
			for _, a := range x.Args {
				if !add(a, depth+1) {
					return false
				}
			}
			return true
		case "var":
			if d, ok := defs[x]; ok {
				return add(d, depth+1)
			}
			if a, ok := alpha[x]; ok {
				out = append(out, segment{v: x, alpha: a})
				return true
			}
		}
		return false
	}
	if !add(t, 0) {
		return nil, false
	}
	return out, true
}

// literalCanOccur over-approximates "the literal y occurs somewhere in the subject": an NFA walk
// over the segments in which a variable contributes any number (at least one unless nullable) of
// characters of its alphabet.  A `false` answer is definite.
func literalCanOccur(segs []segment, y string) bool {
	ys := []rune(y)
	if len(ys) == 0 {
		return true
	}
	lits := make([][]rune, len(segs))
	for i, sg := range segs {
		if sg.v == nil {
			lits[i] = []rune(sg.lit)
		}
	}
	type st struct{ j, kind, seg, off int } // kind 0: literal position, 1: inside variable, 2: at segment start
	memo := map[st]bool{}
	var can func(s st) bool
	can = func(s st) bool {
		if s.j == len(ys) {
			return true
		}
		if v, ok := memo[s]; ok {
			return v
		}
		memo[s] = false
		r := false
		switch s.kind {
		case 2:
			if s.seg < len(segs) {
				if segs[s.seg].v == nil {
					r = can(st{s.j, 0, s.seg, 0})
				} else {
					r = can(st{s.j, 1, s.seg, 0})
					if !r && segs[s.seg].alpha.nullable {
						r = can(st{s.j, 2, s.seg + 1, 0})
					}
				}
			}
		case 0:
			if s.off < len(lits[s.seg]) {
				if lits[s.seg][s.off] == ys[s.j] {
					r = can(st{s.j + 1, 0, s.seg, s.off + 1})
				}
			} else {
				r = can(st{s.j, 2, s.seg + 1, 0})
			}
		case 1:
			if segs[s.seg].alpha.has(ys[s.j]) {
				r = can(st{s.j + 1, 1, s.seg, 0})
			}
			if !r && s.j > 0 {
				// the variable ends here (only after at least one character of y was placed in it, or when
				// this is not where the occurrence starts; starting states are enumerated separately)
				r = can(st{s.j, 2, s.seg + 1, 0})
			}
		}
		memo[s] = r
		return r
	}
	for k := range segs {
		if segs[k].v == nil {
			for o := range lits[k] {
				if can(st{0, 0, k, o}) {
					return true
				}
			}
		} else if can(st{0, 1, k, 0}) {
			return true
		}
	}
	return false
}

// structNoMatch: definitely no match anywhere in the subject (some literal piece cannot occur).
func (c *compiledRe) structNoMatch(segs []segment) bool {
	for _, p := range c.pieces {
		if p.lit != "" && !literalCanOccur(segs, p.lit) {
			return true
		}
	}
	return false
}

func allLiteral(segs []segment) (string, bool) {
	var sb strings.Builder
	for _, sg := range segs {
		if sg.v != nil {
			return "", false
		}
		sb.WriteString(sg.lit)
	}
	return sb.String(), true
}
