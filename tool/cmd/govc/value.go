package main

import (
	"fmt"
	"go/types"
	"math/big"

	"golang.org/x/tools/go/ssa"
)

// Value domain of the symbolic executor.  Values are immutable; the heap maps
// object identities to values and is copied on fork.

type Value interface{}

type VInt struct{ T *Term }  // every integer kind and frontend.Variable
type VBool struct{ T *Term } //
type VStr struct{ T *Term }  // sconst or symbolic String term
type VStruct struct {
	T *types.Struct
	F []Value
}
type VArr struct{ E []Value } // fixed-size array or concrete backing store
type VTuple struct{ E []Value }
type VNilT struct{} // untyped nil placeholder

// Seq is the content of a slice backing store.
type Seq struct {
	Conc []Value                // concrete shape
	Sym  func(i *Term) Value    // symbolic shape: element at (symbolic) index
	Desc string                 // for diagnostics
}

func (s *Seq) at(i *Term) (Value, bool) {
	if s.Conc != nil || s.Sym == nil {
		if i.IsConst() && i.Val.IsInt64() {
			k := int(i.Val.Int64())
			if k < 0 || k >= len(s.Conc) {
				return nil, false
			}
			return s.Conc[k], true
		}
		// symbolic index into concrete storage: ite chain
		if len(s.Conc) == 0 {
			return nil, false
		}
		v := s.Conc[len(s.Conc)-1]
		for k := len(s.Conc) - 2; k >= 0; k-- {
			v = mergeValues(Eq(i, Int64C(int64(k))), s.Conc[k], v)
		}
		return v, true
	}
	return s.Sym(i), true
}

func (s *Seq) set(i *Term, v Value) *Seq {
	if s.Sym == nil {
		if i.IsConst() && i.Val.IsInt64() {
			k := int(i.Val.Int64())
			n := make([]Value, len(s.Conc))
			copy(n, s.Conc)
			if k >= 0 && k < len(n) {
				n[k] = v
			}
			return &Seq{Conc: n}
		}
		n := make([]Value, len(s.Conc))
		for k := range s.Conc {
			n[k] = mergeValues(Eq(i, Int64C(int64(k))), v, s.Conc[k])
		}
		return &Seq{Conc: n}
	}
	old := s.Sym
	return &Seq{Sym: func(j *Term) Value {
		if j == i {
			return v
		}
		return mergeValues(Eq(j, i), v, old(j))
	}, Desc: s.Desc}
}

// Object is a heap identity.
type Object struct {
	id   int
	name string
	typ  types.Type
}

var objSeq = 0

func newObject(name string, typ types.Type) *Object {
	objSeq++
	return &Object{id: objSeq, name: name, typ: typ}
}

type PathElem struct {
	Field int   // >=0: struct field
	Index *Term // non-nil: array / seq index
}

type VPtr struct {
	Obj   *Object // nil = nil pointer
	Path  []PathElem
	Valid *Term // non-nil: the pointer is nil unless Valid holds (result of a fallible constructor)
}

// VSlice: heap-backed (Obj != nil, heap[Obj] is *Seq) or pure (Pure != nil) or nil slice (both nil, Len 0).
type VSlice struct {
	Obj  *Object
	Pure *Seq
	Off  *Term
	Len  *Term
	Cap  *Term
	Home *VPtr // for a pure slice loaded from memory: where it lives (element addresses extend this path)
}

type VIface struct {
	Dyn    types.Type // nil = nil interface
	V      Value
	NilSym *Term // symbolic nil-ness (havocked error values)
}

type VFunc struct {
	Fn   *ssa.Function
	Free []Value
	Ext  string // name of external function value
}

type VOpaque struct {
	Kind string
	ID   int
	Data interface{}
}

type VMap struct {
	Obj *Object // heap[Obj] is *MapVal
}

type MapVal struct {
	Keys []Value
	Vals []Value
	// Opaque maps (symbolic): lookups return havoc
	Opaque bool
}

func isNilValue(v Value) (bool, bool) {
	switch x := v.(type) {
	case VPtr:
		if x.Obj != nil && x.Valid != nil {
			return false, false
		}
		return x.Obj == nil, true
	case VIface:
		if x.NilSym != nil {
			return false, false
		}
		return x.Dyn == nil && x.V == nil, true
	case VSlice:
		return x.Obj == nil && x.Pure == nil, true
	case VNilT:
		return true, true
	case VFunc:
		return x.Fn == nil && x.Ext == "", true
	case VMap:
		return x.Obj == nil, true
	}
	return false, false
}

// mergeValues builds ite(c, a, b) leaf-wise.
func mergeValues(c *Term, a, b Value) Value {
	if c.IsTrue() {
		return a
	}
	if c.IsFalse() {
		return b
	}
	// an unset frontend.Variable (nil interface) merged with a number: an arbitrary, unconstrained value
	if ia, ok := a.(VIface); ok && ia.V == nil && ia.Dyn == nil && ia.NilSym == nil {
		if _, isInt := b.(VInt); isInt {
			a = VInt{Var("unset.frontend.Variable", SInt)}
		}
	}
	if ib, ok := b.(VIface); ok && ib.V == nil && ib.Dyn == nil && ib.NilSym == nil {
		if _, isInt := a.(VInt); isInt {
			b = VInt{Var("unset.frontend.Variable", SInt)}
		}
	}
	// frontend.Variable values: an interface holding a number and a bare number are the same thing
	if ia, ok := a.(VIface); ok {
		if iv, ok2 := ia.V.(VInt); ok2 {
			if _, bInt := b.(VInt); bInt {
				a = iv
			}
		}
	}
	if ib, ok := b.(VIface); ok {
		if iv, ok2 := ib.V.(VInt); ok2 {
			if _, aInt := a.(VInt); aInt {
				b = iv
			}
		}
	}
	switch x := a.(type) {
	case VInt:
		y, ok := b.(VInt)
		if !ok {
			panic(execError{"merge of int with " + fmt.Sprintf("%T", b)})
		}
		return VInt{Ite(c, x.T, y.T)}
	case VBool:
		y := b.(VBool)
		return VBool{Ite(c, x.T, y.T)}
	case VStr:
		y := b.(VStr)
		return VStr{Ite(c, x.T, y.T)}
	case VStruct:
		y := b.(VStruct)
		f := make([]Value, len(x.F))
		for i := range x.F {
			f[i] = mergeValues(c, x.F[i], y.F[i])
		}
		return VStruct{x.T, f}
	case VArr:
		y, okArr := b.(VArr)
		if !okArr {
			xf, yf := flatten2(a), flatten2(b)
			if len(xf) == len(yf) {
				f := make([]Value, len(xf))
				for i := range xf {
					f[i] = VInt{Ite(c, xf[i], yf[i])}
				}
				return VSpecTuple{f}
			}
			panic(execError{"merge of array with incompatible value"})
		}
		if len(x.E) != len(y.E) {
			panic(execError{"merge of arrays with different length"})
		}
		f := make([]Value, len(x.E))
		for i := range x.E {
			f[i] = mergeValues(c, x.E[i], y.E[i])
		}
		return VArr{f}
	case VSpecTuple:
		y, ok := b.(VSpecTuple)
		if ok && len(x.E) == len(y.E) {
			f := make([]Value, len(x.E))
			for i := range x.E {
				f[i] = mergeValues(c, x.E[i], y.E[i])
			}
			return VSpecTuple{f}
		}
		// tuple against a structured value with the same leaves
		yf := flatten2(b)
		xf := flatten2(a)
		if len(xf) == len(yf) {
			f := make([]Value, len(xf))
			for i := range xf {
				f[i] = VInt{Ite(c, xf[i], yf[i])}
			}
			return VSpecTuple{f}
		}
	case VSlice:
		y, ok := b.(VSlice)
		if !ok {
			panic(execError{"merge of slice with non-slice"})
		}
		if x.Obj == y.Obj && x.Pure == y.Pure && x.Off == y.Off && x.Len == y.Len {
			return x
		}
		// one side nil: the elements of the other side, the length selected by the condition
		xNil, yNil := x.Obj == nil && x.Pure == nil, y.Obj == nil && y.Pure == nil
		// (the backing store is kept, so writes through the merged slice still reach it)
		if yNil && !xNil {
			return VSlice{Obj: x.Obj, Pure: x.Pure, Off: x.Off, Len: Ite(c, x.Len, Int64C(0)), Cap: Ite(c, x.Cap, Int64C(0))}
		}
		if xNil && !yNil {
			return VSlice{Obj: y.Obj, Pure: y.Pure, Off: y.Off, Len: Ite(c, Int64C(0), y.Len), Cap: Ite(c, Int64C(0), y.Cap)}
		}
		// merge as pure slices (reads only)
		xs, ys := x, y
		return VSlice{Pure: &Seq{Sym: func(i *Term) Value {
			return mergeValues(c, pureAt(xs, i), pureAt(ys, i))
		}}, Off: Int64C(0), Len: Ite(c, x.Len, y.Len), Cap: Ite(c, x.Len, y.Len)}
	case VIface:
		y, ok := b.(VIface)
		if ok {
			if xi, ok1 := x.V.(VInt); ok1 {
				if yi, ok2 := y.V.(VInt); ok2 {
					return VInt{Ite(c, xi.T, yi.T)}
				}
			}
		}
		if ok && x.Dyn != nil && y.Dyn != nil && types.Identical(x.Dyn, y.Dyn) {
			return VIface{Dyn: x.Dyn, V: mergeValues(c, x.V, y.V)}
		}
	case VPtr:
		y, ok := b.(VPtr)
		if ok && x.Obj == y.Obj && len(x.Path) == len(y.Path) {
			same := true
			for i := range x.Path {
				if x.Path[i] != y.Path[i] {
					same = false
				}
			}
			if same {
				return x
			}
		}
	case VOpaque:
		if y, ok := b.(VOpaque); ok && x.Kind == y.Kind && x.ID == y.ID {
			return x
		}
	}
	panic(execError{fmt.Sprintf("cannot merge values %T / %T under symbolic condition", a, b)})
}

// pureAt reads a slice element without heap access (only valid for Pure slices); heap-backed
// slices must be converted by the executor before merging.
func pureAt(s VSlice, i *Term) Value {
	if s.Pure == nil {
		panic(execError{"merge of heap-backed slices under symbolic condition"})
	}
	v, ok := s.Pure.at(Add(s.Off, i))
	if !ok {
		panic(execError{"pure slice index out of concrete range"})
	}
	return v
}

// flatten returns the scalar leaves of a value (ints, bools) in declaration order.
func flatten(v Value, out []*Term) []*Term {
	switch x := v.(type) {
	case VInt:
		return append(out, x.T)
	case VBool:
		return append(out, x.T)
	case VStr:
		return append(out, x.T)
	case VStruct:
		for _, f := range x.F {
			out = flatten(f, out)
		}
		return out
	case VArr:
		for _, f := range x.E {
			out = flatten(f, out)
		}
		return out
	case VTuple:
		for _, f := range x.E {
			out = flatten(f, out)
		}
		return out
	case VIface:
		if x.V != nil {
			return flatten(x.V, out)
		}
		return out
	}
	if op, ok := v.(VOpaque); ok {
		panic(execError{"cannot flatten opaque value of kind " + op.Kind})
	}
	panic(execError{fmt.Sprintf("cannot flatten %T", v)})
}

func flatten2(v Value) []*Term {
	if t, ok := v.(VSpecTuple); ok {
		var out []*Term
		for _, e := range t.E {
			out = append(out, flatten2(e)...)
		}
		return out
	}
	return flatten(v, nil)
}

type execError struct{ msg string }

func (e execError) Error() string { return e.msg }

func bigPow2(k uint) *big.Int { return new(big.Int).Lsh(bigOne, k) }

// substValue applies a term substitution to every leaf of a value.
func substValue(v Value, m map[*Term]*Term) Value {
	switch x := v.(type) {
	case VInt:
		return VInt{Subst(x.T, m)}
	case VBool:
		return VBool{Subst(x.T, m)}
	case VStr:
		return VStr{Subst(x.T, m)}
	case VBigRef:
		return VBigRef{Subst(x.T, m)}
	case VPtr:
		if x.Valid != nil {
			x.Valid = Subst(x.Valid, m)
		}
		return x
	case VStruct:
		f := make([]Value, len(x.F))
		for i := range f {
			f[i] = substValue(x.F[i], m)
		}
		return VStruct{x.T, f}
	case VArr:
		f := make([]Value, len(x.E))
		for i := range f {
			f[i] = substValue(x.E[i], m)
		}
		return VArr{f}
	case VTuple:
		f := make([]Value, len(x.E))
		for i := range f {
			f[i] = substValue(x.E[i], m)
		}
		return VTuple{f}
	case VSlice:
		n := VSlice{Obj: x.Obj, Off: Subst(x.Off, m), Len: Subst(x.Len, m), Cap: Subst(x.Cap, m)}
		if x.Pure != nil {
			n.Pure = substSeq(x.Pure, m)
		}
		return n
	case VIface:
		n := x
		if x.V != nil {
			n.V = substValue(x.V, m)
		}
		if x.NilSym != nil {
			n.NilSym = Subst(x.NilSym, m)
		}
		return n
	case VOpaque:
		if t, ok := x.Data.(*Term); ok {
			return VOpaque{Kind: x.Kind, ID: x.ID, Data: Subst(t, m)}
		}
		return x
	}
	return v
}

func substSeq(s *Seq, m map[*Term]*Term) *Seq {
	if s.Sym == nil {
		n := make([]Value, len(s.Conc))
		for i := range n {
			n[i] = substValue(s.Conc[i], m)
		}
		return &Seq{Conc: n}
	}
	old := s.Sym
	return &Seq{Sym: func(i *Term) Value { return substValue(old(i), m) }, Desc: s.Desc}
}

func substHeapEntry(v interface{}, m map[*Term]*Term) interface{} {
	switch x := v.(type) {
	case *Seq:
		return substSeq(x, m)
	case *MapVal:
		return x
	case Value:
		return substValue(x, m)
	}
	return v
}
