package main

import (
	"encoding/json"
	"flag"
	"fmt"
	"os"
	"path/filepath"
	"sort"
	"strings"
	"time"

	"go/types"

	"golang.org/x/tools/go/ssa"
)

func fieldName(x *ssa.FieldAddr) string {
	pt, ok := x.X.Type().Underlying().(*types.Pointer)
	if !ok {
		return ""
	}
	st, ok := pt.Elem().Underlying().(*types.Struct)
	if !ok {
		return ""
	}
	n, ok := pt.Elem().(*types.Named)
	if !ok {
		return ""
	}
	return n.Obj().Pkg().Name() + "." + n.Obj().Name() + "." + st.Field(x.Field).Name()
}

const verifRoot = "/verif"

// outRoot: where evidence and replay files go; GOVC_OUT redirects them for development runs on scratch trees, so that
// such runs do not overwrite the evidence of the real tree.
func outRoot() string {
	if r := os.Getenv("GOVC_OUT"); r != "" {
		return r
	}
	return verifRoot
}

type knownFinding struct {
	Prop   string
	Oblig  string
	Desc   string
	Fixed  bool
	Commit string
}

func readKnownFindings() []knownFinding {
	b, err := os.ReadFile(filepath.Join(verifRoot, "known_findings.txt"))
	if err != nil {
		return nil
	}
	var out []knownFinding
	for _, ln := range strings.Split(string(b), "\n") {
		ln = strings.TrimSpace(ln)
		if ln == "" || strings.HasPrefix(ln, "#") {
			continue
		}
		kf := knownFinding{}
		switch {
		case strings.HasPrefix(ln, "finding:"):
			ln = strings.TrimSpace(strings.TrimPrefix(ln, "finding:"))
		case strings.HasPrefix(ln, "fixed:"):
			kf.Fixed = true
			ln = strings.TrimSpace(strings.TrimPrefix(ln, "fixed:"))
		default:
			continue
		}
		fs := strings.Fields(ln)
		var rest []string
		for _, f := range fs {
			switch {
			case strings.HasPrefix(f, "property="):
				kf.Prop = strings.TrimPrefix(f, "property=")
			case strings.HasPrefix(f, "obligation="):
				kf.Oblig = strings.TrimPrefix(f, "obligation=")
			case strings.HasPrefix(f, "commit="):
				kf.Commit = strings.TrimPrefix(f, "commit=")
			default:
				rest = append(rest, f)
			}
		}
		kf.Desc = strings.Join(rest, " ")
		out = append(out, kf)
	}
	return out
}

type groupResult struct {
	Name      string
	Kind      string
	Func      string
	Mode      string
	Expect    string
	Instances int
	Status    string // discharged | failed-model | failed-unknown | cover-ok | cover-vacuous | cover-unknown
	Backends  map[string]int
	Time      float64
	Failing   *Oblig
	Pos       string
	Src       string
}

func groupObligations(obs []*Oblig) []*groupResult {
	m := map[string]*groupResult{}
	var order []string
	for _, ob := range obs {
		g := m[ob.Name]
		if g == nil {
			g = &groupResult{Name: ob.Name, Kind: ob.Kind, Func: ob.Func, Mode: ob.Mode.String(), Expect: ob.Expect, Backends: map[string]int{}, Pos: ob.Pos, Src: ob.Src}
			m[ob.Name] = g
			order = append(order, ob.Name)
		}
		g.Instances++
		g.Time += ob.Time
		if ob.Backend != "" {
			g.Backends[ob.Backend]++
		}
		if ob.Expect == "unsat" {
			switch ob.Result {
			case "unsat":
			case "sat":
				if g.Failing == nil || g.Failing.Result != "sat" {
					g.Failing = ob
				}
			default:
				if g.Failing == nil {
					g.Failing = ob
				}
			}
		} else {
			switch ob.Result {
			case "sat":
				g.Status = "cover-ok"
			case "unsat":
				if g.Status == "" {
					g.Status = "cover-vacuous"
				}
			default:
				if g.Status == "" || g.Status == "cover-vacuous" {
					g.Status = "cover-unknown"
				}
			}
		}
	}
	var out []*groupResult
	for _, n := range order {
		g := m[n]
		if g.Expect == "unsat" {
			switch {
			case g.Failing == nil:
				g.Status = "discharged"
			case g.Failing.Result == "sat":
				g.Status = "failed-model"
			default:
				g.Status = "failed-unknown"
			}
		}
		out = append(out, g)
	}
	return out
}

type evidence struct {
	PropertyID  string                 `json:"property_id"`
	Tier        string                 `json:"tier"`
	Seed        int                    `json:"seed"`
	Level       string                 `json:"level"`
	Coverage    map[string]interface{} `json:"coverage"`
	Assumptions []string               `json:"assumptions"`
	WallS       float64                `json:"wall_s"`
	Violations  int                    `json:"violations"`
}

func cmdCheck(args []string) int {
	fs := flag.NewFlagSet("check", flag.ExitOnError)
	tier := fs.String("tier", os.Getenv("VERIF_TIER"), "quick|thorough")
	timeout := fs.Int("timeout", 0, "per-obligation solver timeout (s)")
	keep := fs.String("keep", "", "keep SMT files in this directory")
	verbose := fs.Bool("v", false, "print every obligation")
	if len(args) < 1 {
		fatalf("usage: govc check <property> [--tier quick|thorough]")
	}
	prop := args[0]
	fs.Parse(args[1:])
	if *tier == "" {
		*tier = "quick"
	}
	if *timeout == 0 {
		*timeout = 60
		if *tier == "thorough" {
			*timeout = 180
		}
	}
	seed := 0
	fmt.Sscan(os.Getenv("VERIF_SEED"), &seed)
	start := time.Now()
	l := load()
	unbound := l.bind()
	e := newEngine(l)
	e.curProp = prop
	e.tier = *tier
	e.checkBudget = 600
	if *tier == "thorough" {
		e.checkBudget = 1800
	}
	e.checkDeadline = time.Now().Add(time.Duration(e.checkBudget) * time.Second)
	fmt.Printf("govc: loaded %d packages; %d contracts bound\n", len(l.spkgs), len(l.bound))
	inconclusive := []string{}
	for _, u := range unbound {
		inconclusive = append(inconclusive, "contract-unbound "+u)
	}
	// functions under contract for this property
	var fuc []string
	var soundOnly []string
	keys := sortedKeys(l.byKey)
	for _, key := range keys {
		fn := l.byKey[key]
		ct := l.bound[fn]
		if prop == "C02" {
			// completeness of the whole circuit: every circuit function that has a COMPLETE-mode contract
			if ct.Flags["trusted"] || ct.Flags["interface"] {
				continue
			}
			if ct.Kind != "circuit" && !ct.HasProp("C02") {
				continue // plain functions only when tagged (the hint functions: honest hint values are part of completeness)
			}
			if ct.Flags["sound-only"] {
				soundOnly = append(soundOnly, key)
				continue
			}
		} else if !ct.HasProp(prop) {
			continue
		}
		if ct.Flags["trusted"] {
			e.note("contract of " + key + " is trusted (body not verified)")
			continue
		}
		fuc = append(fuc, key)
		for _, m := range modesFor(ct) {
			if prop == "C02" && m != COMPLETE {
				continue
			}
			if err := e.verifyFunction(fn, ct, m); err != nil {
				inconclusive = append(inconclusive, "outside-reach "+err.Error())
			}
		}
	}
	// lemmas: those tagged with the property and those used by its contracts
	for _, lm := range l.cs.Lemmas {
		if contains(lm.Props, prop) || e.lemmasUsed[lm.Name] {
			if err := e.proveLemma(lm); err != nil {
				inconclusive = append(inconclusive, "outside-reach "+err.Error())
			}
		}
	}
	// interface-method contracts used: every implementation under contract must restate their postconditions
	for _, key := range sortedKeys(e.ifaceUsed) {
		e.obligs = append(e.obligs, ifaceRefinement(l, key)...)
	}
	extra := propertyExtras(e, l, prop)
	e.obligs = append(e.obligs, extra...)
	if len(fuc) == 0 && len(extra) == 0 {
		fmt.Printf("govc: no function under contract for %s\n", prop)
		return 2
	}
	dir := *keep
	if dir == "" {
		d, err := os.MkdirTemp("", "govc-"+prop+"-")
		if err != nil {
			fatalf("mktemp: %v", err)
		}
		dir = d
		defer os.RemoveAll(d)
	} else {
		os.MkdirAll(dir, 0o755)
	}
	genTime := time.Since(start).Seconds()
	solveStart := time.Now()
	solveBudget := 900
	if *tier == "thorough" {
		solveBudget = 2700
	}
	solveDeadline = time.Now().Add(time.Duration(solveBudget) * time.Second)
	dischargeAll(e.obligs, dir, *timeout, 8)
	solveWall := time.Since(solveStart).Seconds()
	groups := groupObligations(e.obligs)

	known := readKnownFindings()
	isKnown := func(name string) *knownFinding {
		for i := range known {
			if !known[i].Fixed && known[i].Prop == prop && known[i].Oblig == name {
				return &known[i]
			}
		}
		return nil
	}
	nOb, nDis, nCover := 0, 0, 0
	backends := map[string]int{}
	solverTime := 0.0
	var violations []*groupResult
	var knownHit []string
	var vacuous []string
	var samples []map[string]interface{}
	for _, g := range groups {
		solverTime += g.Time
		for b, n := range g.Backends {
			backends[b] += n
		}
		if *verbose {
			fmt.Printf("  %-14s %-100s x%d %.2fs\n", g.Status, g.Name, g.Instances, g.Time)
		}
		if g.Expect == "sat" {
			nCover++
			if g.Status == "cover-vacuous" {
				vacuous = append(vacuous, g.Name)
			}
			continue
		}
		nOb++
		switch g.Status {
		case "discharged":
			nDis++
			if len(samples) < 5 {
				samples = append(samples, map[string]interface{}{"obligation": g.Name, "source": g.Pos, "clause": g.Src, "answer": "unsat", "instances": g.Instances, "solver_s": round2(g.Time), "backends": g.Backends})
			}
		default:
			if kf := isKnown(g.Name); kf != nil {
				fmt.Printf("KNOWN-FINDING: property=%s %s: %s\n", prop, g.Name, kf.Desc)
				knownHit = append(knownHit, g.Name)
				continue
			}
			violations = append(violations, g)
		}
	}
	// a failed obligation whose VC depends on an unverifiable piece of code is undecided, not a violation
	exit := 0
	nViol := 0
	for _, g := range violations {
		path, confirmed := writeReplay(e, l, prop, g, dir)
		suffix := ""
		if !confirmed {
			suffix = " no-failing-input-found"
		}
		fmt.Printf("VIOLATION property=%s replay=%s%s\n", prop, path, suffix)
		fmt.Printf("  obligation %s (%s) at %s: %s\n", g.Name, g.Status, g.Pos, g.Src)
		nViol++
		exit = 1
	}
	// An obligation that cannot be generated or decided on this tree is reported as failed, by name:
	// a function under contract whose body left the verifier's reach, a contract that no longer
	// binds to the code, a vacuity guard that became unsatisfiable.  All of them were discharged
	// on the tree the contracts were written for; none carries a failing input.
	for _, v := range vacuous {
		g := &groupResult{Name: v, Status: "cover-vacuous", Kind: "cover", Src: "reachability guard: the precondition (or the path to the return) must be satisfiable"}
		path, _ := writeReplayNote(prop, g, "the vacuity guard is unsatisfiable: every discharged obligation behind it would hold vacuously")
		fmt.Printf("VIOLATION property=%s replay=%s no-failing-input-found\n", prop, path)
		fmt.Printf("  obligation %s (vacuity guard failed)\n", v)
		nViol++
		exit = 1
	}
	for _, m := range inconclusive {
		name := m
		if i := strings.Index(m, ": "); i > 0 {
			name = m[:i]
		}
		name = strings.NewReplacer("outside-reach ", "", "contract-unbound ", "", " [", "/", "]", "").Replace(name) + "/within-reach"
		g := &groupResult{Name: name, Status: "not-generated", Kind: "reach", Src: m}
		path, _ := writeReplayNote(prop, g, "the verification conditions of this function can no longer be generated from the current source: "+m)
		fmt.Printf("VIOLATION property=%s replay=%s no-failing-input-found\n", prop, path)
		fmt.Printf("  obligation %s: %s\n", name, m)
		nViol++
		exit = 1
	}
	wall := time.Since(start).Seconds()
	fmt.Printf("govc: %s: %d functions under contract, %d obligations, %d discharged, %d known findings, %d violations, %d covers; generation %.1fs, solving %.1fs wall (%.1fs solver time)\n",
		prop, len(fuc), nOb, nDis, len(knownHit), nViol, nCover, genTime, solveWall, solverTime)

	// evidence
	var trusted []string
	var assumptions []string
	for _, n := range sortedKeys(e.notes) {
		assumptions = append(assumptions, n)
		trusted = append(trusted, n)
	}
	// axioms behind the contracts of callees that this check uses without re-proving them
	axiomOf := map[string]*Lemma{}
	for _, lm := range l.cs.Lemmas {
		if lm.Axiom {
			axiomOf[lm.Name] = lm
		}
	}
	seenAx := map[string]bool{}
	for _, k := range sortedKeys(e.funcsUsed) {
		fn := l.byKey[k]
		if fn == nil || l.bound[fn] == nil {
			continue
		}
		ct := l.bound[fn]
		var cls []Clause
		cls = append(cls, ct.Uses...)
		cls = append(cls, ct.UsesAtRet...)
		for _, v := range ct.LoopUse {
			cls = append(cls, v...)
		}
		for _, cl := range cls {
			for name, lm := range axiomOf {
				if strings.Contains(cl.Src, name+"(") && !seenAx[name+"|"+k] {
					seenAx[name+"|"+k] = true
					assumptions = append(assumptions, "AXIOM "+name+" (assumed, not proved) is used in the proof of the callee contract "+k+": "+lm.Src)
				}
			}
		}
	}
	assumptions = append(assumptions, propertyAssumptions(prop)...)
	assumptions = append(assumptions, ifaceAssumed...)
	for _, k := range soundOnly {
		assumptions = append(assumptions, "completeness NOT covered (contract is sound-only): "+k)
	}
	var used []string
	for _, k := range sortedKeys(e.funcsUsed) {
		st := "proved under its own contract check"
		if fn := l.byKey[k]; fn != nil && l.bound[fn].Flags["trusted"] {
			st = "TRUSTED (body not verified)"
		}
		used = append(used, k+": "+st)
	}
	var inl []string
	for _, k := range sortedKeys(e.inlined) {
		inl = append(inl, k)
	}
	if len(samples) == 0 {
		for _, g := range groups {
			if len(samples) < 3 {
				samples = append(samples, map[string]interface{}{"obligation": g.Name, "status": g.Status})
			}
		}
	}
	ev := evidence{PropertyID: prop, Tier: *tier, Seed: seed, Level: "proof", WallS: round2(wall), Violations: nViol, Assumptions: assumptions,
		Coverage: map[string]interface{}{
			"obligations":              nOb - len(knownHit),
			"obligations_including_known_findings": nOb,
			"discharged":               nDis,
			"known_findings":           knownHit,
			"checker_cmd":              "/verif/bin/govc check " + prop + " --tier " + *tier,
			"trusted_base":             trusted,
			"functions_under_contract": fuc,
			"callee_contracts_used":    used,
			"inlined_helpers":          inl,
			"by_backend":               backends,
			"solver_time_s":            round2(solverTime),
			"vacuity_covers":           nCover,
			"bounded_standins":         []string{},
			"samples":                  samples,
			"modes":                    "circuit functions: SOUND (arbitrary hints, constraints assumed) and COMPLETE (honest hints, constraints asserted); plain functions: weakest-precondition style",
			"integers":                 "mathematical (SMT Int); field ops mod R, unsigned ops mod 2^N",
			"inconclusive":             inconclusive,
		}}
	os.MkdirAll(filepath.Join(outRoot(), "evidence"), 0o755)
	b, _ := json.MarshalIndent(ev, "", " ")
	if err := os.WriteFile(filepath.Join(outRoot(), "evidence", prop+".json"), b, 0o644); err != nil {
		fatalf("write evidence: %v", err)
	}
	return exit
}

func round2(f float64) float64 { return float64(int(f*100+0.5)) / 100 }

// propertyExtras: obligations that are not attached to one function (scans, lemmas).
func propertyExtras(e *Engine, l *Loaded, prop string) []*Oblig {
	var out []*Oblig
	if prop == "C10" || prop == "C12" {
		out = append(out, bn254TableObligation(e))
	}
	for _, sc := range storeScans {
		if !contains(sc.Props, prop) {
			continue
		}
		out = append(out, runStoreScan(l, sc))
	}
	return out
}

func propertyAssumptions(prop string) []string { return propAssumptions[prop] }

var propAssumptions = map[string][]string{}

func contains(xs []string, x string) bool {
	for _, y := range xs {
		if y == x {
			return true
		}
	}
	return false
}

// storeScan: a mechanical frame obligation — a global or a struct field is only written
// inside the listed functions.
type storeScan struct {
	Name    string
	Props   []string
	Global  string   // pkg.Name of a package-level variable, or
	Field   string   // pkg.Type.field
	Allowed []string // function keys allowed to write
}

var storeScans = []storeScan{}

func runStoreScan(l *Loaded, sc storeScan) *Oblig {
	ob := &Oblig{Name: "scan/" + sc.Name, Kind: "scan", Expect: "unsat", Goal: BoolC(true), Src: "no store outside " + strings.Join(sc.Allowed, ",")}
	var offenders []string
	for _, sp := range l.spkgs {
		if !strings.HasPrefix(sp.Pkg.Path(), modulePrefix) {
			continue
		}
		var fns []*ssa.Function
		for _, m := range sp.Members {
			if f, ok := m.(*ssa.Function); ok {
				fns = append(fns, f)
				fns = append(fns, f.AnonFuncs...)
			}
			if t, ok := m.(*ssa.Type); ok {
				ms := l.prog.MethodSets.MethodSet(t.Type())
				for i := 0; i < ms.Len(); i++ {
					if f := l.prog.MethodValue(ms.At(i)); f != nil {
						fns = append(fns, f)
					}
				}
				ms2 := l.prog.MethodSets.MethodSet(types.NewPointer(t.Type()))
				for i := 0; i < ms2.Len(); i++ {
					if f := l.prog.MethodValue(ms2.At(i)); f != nil {
						fns = append(fns, f)
					}
				}
			}
		}
		for _, f := range fns {
			if f.Synthetic != "" && !strings.HasPrefix(f.Name(), "init") {
				continue
			}
			key := funcKey(f)
			if contains(sc.Allowed, key) {
				continue
			}
			for _, b := range f.Blocks {
				for _, in := range b.Instrs {
					var addr ssa.Value
					switch x := in.(type) {
					case *ssa.Store:
						addr = x.Addr
					case *ssa.MapUpdate:
						addr = x.Map
					default:
						continue
					}
					if scanMatches(addr, sc) {
						offenders = append(offenders, key+" at "+l.fset.Position(in.Pos()).String())
					}
				}
			}
		}
	}
	sort.Strings(offenders)
	if len(offenders) > 0 {
		ob.Goal = BoolC(false)
		ob.Src += "; offending stores: " + strings.Join(offenders, "; ")
	}
	return ob
}

func scanMatches(addr ssa.Value, sc storeScan) bool {
	for depth := 0; depth < 8 && addr != nil; depth++ {
		switch x := addr.(type) {
		case *ssa.Global:
			return sc.Global != "" && x.Pkg.Pkg.Name()+"."+x.Name() == sc.Global
		case *ssa.FieldAddr:
			if sc.Field != "" && fieldName(x) == sc.Field {
				return true
			}
			addr = x.X
		case *ssa.IndexAddr:
			addr = x.X
		case *ssa.UnOp:
			addr = x.X
		default:
			return false
		}
	}
	return false
}

// ifaceRefinement: a structural obligation per implementation of an interface method whose contract was used
// at a dynamic call: each `ensures` of the interface contract appears (textually) in an `ensures` of the
// implementation's contract, and the implementation is under contract at all.
var ifaceAssumed []string

func ifaceRefinement(l *Loaded, key string) []*Oblig {
	ic := l.iface[key]
	var out []*Oblig
	parts := strings.Split(key, ".")
	sp := l.spkgs[ic.ct.Pkg]
	if sp == nil {
		return nil
	}
	it, _ := sp.Type(parts[1]).Type().Underlying().(*types.Interface)
	if it == nil {
		return nil
	}
	norm := func(s string) string { return strings.Join(strings.Fields(s), " ") }
	for _, mem := range sp.Members {
		t, ok := mem.(*ssa.Type)
		if !ok {
			continue
		}
		if _, isIface := t.Type().Underlying().(*types.Interface); isIface {
			continue
		}
		pt := types.NewPointer(t.Type())
		if !types.Implements(pt, it) && !types.Implements(t.Type(), it) {
			continue
		}
		fn := l.prog.LookupMethod(pt, sp.Pkg, parts[2])
		if fn == nil {
			continue
		}
		name := "iface-refine/" + funcKey(fn)
		ob := &Oblig{Name: name, Kind: "scan", Expect: "unsat", Goal: BoolC(true), Src: "contract of " + funcKey(fn) + " restates the postconditions of " + key}
		ct := l.bound[fn]
		if ct == nil && l.prog.MethodSets.MethodSet(t.Type()).Lookup(sp.Pkg, parts[2]) != nil {
			if f2 := l.prog.LookupMethod(t.Type(), sp.Pkg, parts[2]); f2 != nil {
				ct = l.bound[f2]
			}
		}
		if ct == nil || ct.Flags["trusted"] {
			// not under contract: the interface postconditions are an assumption for this implementation
			ifaceAssumed = append(ifaceAssumed, funcKey(fn)+" is not under contract: the postconditions of "+key+" are assumed for it")
			continue
		} else {
			for _, en := range ic.ct.Ensures {
				found := false
				for _, ie := range ct.Ensures {
					if strings.Contains(norm(ie.Src), norm(en.Src)) {
						found = true
					}
				}
				if !found {
					ob.Goal = BoolC(false)
					ob.Src += ": missing `" + en.Src + "`"
				}
			}
		}
		out = append(out, ob)
	}
	return out
}
