package main

import (
	"fmt"
	"strings"
)

type preludeFun struct {
	Arity int
	Sort  Sort
	Def   string
}

// preludeFuns: spec functions defined in SMT-LIB (scalar arguments, scalar result).
var preludeFuns = map[string]preludeFun{}
var preludeOrder []string
var preludeDeps = map[string][]string{}

func definePrelude(name string, arity int, sort Sort, def string) {
	if _, ok := preludeFuns[name]; !ok {
		preludeOrder = append(preludeOrder, name)
	}
	preludeFuns[name] = preludeFun{arity, sort, def}
}

func init() {
	// pow2 as a total function: exact table on [0,256], 0 elsewhere
	var sb strings.Builder
	sb.WriteString("(define-fun pow2 ((k Int)) Int ")
	n := 0
	for i := 0; i <= 256; i++ {
		sb.WriteString(fmt.Sprintf("(ite (= k %d) %s ", i, bigPow2(uint(i)).String()))
		n++
	}
	sb.WriteString("0")
	sb.WriteString(strings.Repeat(")", n))
	sb.WriteString(")")
	definePrelude("pow2", 1, SInt, sb.String())
	// assumed contract of gnark-crypto goldilocks.Element.Inverse on canonical inputs
	definePrelude("gl_inv", 1, SInt, "(declare-fun gl_inv (Int) Int)\n(assert (forall ((a Int)) (! (and (<= 0 (gl_inv a)) (< (gl_inv a) 18446744069414584321) (=> (= (mod a 18446744069414584321) 0) (= (gl_inv a) 0)) (=> (not (= (mod a 18446744069414584321) 0)) (= (mod (* (gl_inv a) a) 18446744069414584321) 1))) :pattern ((gl_inv a)))))")
	definePrelude("gl_pow", 2, SInt, "(declare-fun gl_pow (Int Int) Int)\n(assert (forall ((b Int) (e Int)) (! (and (<= 0 (gl_pow b e)) (< (gl_pow b e) 18446744069414584321) (=> (not (= (mod b 18446744069414584321) 0)) (not (= (gl_pow b e) 0)))) :pattern ((gl_pow b e)))))")
	definePrelude("bigOfDecimal", 1, SInt, "(declare-fun bigOfDecimal (String) Int)")
	definePrelude("isDecimal", 1, SBool, "(declare-fun isDecimal (String) Bool)")
	definePrelude("bitand", 2, SInt, "(declare-fun bitand (Int Int) Int)")
	definePrelude("bitor", 2, SInt, "(declare-fun bitor (Int Int) Int)")
	definePrelude("bitxor", 2, SInt, "(declare-fun bitxor (Int Int) Int)")
	{
		var sb strings.Builder
		sb.WriteString("(define-fun bitlen ((x Int)) Int ")
		for i := 0; i < 64; i++ {
			sb.WriteString(fmt.Sprintf("(ite (< x %s) %d ", bigPow2(uint(i)).String(), i))
		}
		sb.WriteString("64")
		sb.WriteString(strings.Repeat(")", 64))
		sb.WriteString(")")
		definePrelude("bitlen", 1, SInt, sb.String())
	}
	definePrelude("rev8", 1, SInt, "(declare-fun rev8 (Int) Int)")
}


func preludeFor(names map[string]bool) string {
	var sb strings.Builder
	for _, n := range preludeOrder {
		if names[n] && preludeFuns[n].Def != "" {
			sb.WriteString(preludeFuns[n].Def)
			sb.WriteString("\n")
		}
	}
	return sb.String()
}
