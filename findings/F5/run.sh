#!/bin/sh
# replays F5 against /repo's working tree; nothing is written to /repo
export GOFLAGS=-mod=mod GOPROXY=off GOSUMDB=off GOTOOLCHAIN=local USE_BIT_DECOMPOSITION_RANGE_CHECK=true
d=$(mktemp -d); trap 'rm -rf $d' EXIT
cp "$(dirname "$0")/zz_replay_test.go" $d/
echo "{\"Replace\": {\"/repo/gnark-plonky2-verifier/plonk/zz_replay_test.go\": \"$d/zz_replay_test.go\"}}" > $d/ov.json
cd /repo/gnark-plonky2-verifier && go test -overlay $d/ov.json -vet=off -timeout 600s -count=1 -v -run TestZZReplayF5 ./plonk 2>&1 | grep -E "REPLAY|FAIL|panic|^ok"
