package plonk

// Replay of finding F5 on the real code: checkPartialProducts assumes that every chunk of the
// permutation argument has exactly quotient_degree_factor wires.  plonky2 uses
// num_partial_products = ceil(num_routed_wires / quotient_degree_factor) - 1 and a shorter last chunk,
// so for a valid configuration with num_routed_wires not divisible by the factor the circuit
// definition panics (index out of range) instead of verifying the proof.

import (
	"fmt"
	"testing"

	"github.com/consensys/gnark-crypto/ecc"
	"github.com/consensys/gnark/frontend"
	"github.com/consensys/gnark/frontend/cs/r1cs"
	gl "github.com/wormhole-foundation/example-near-light-client/goldilocks"
	"github.com/wormhole-foundation/example-near-light-client/types"
	"github.com/wormhole-foundation/example-near-light-client/variables"
)

type zzF5Circuit struct {
	X      frontend.Variable
	wires  uint64
	factor uint64
}

func (c *zzF5Circuit) Define(api frontend.API) error {
	npp := (c.wires+c.factor-1)/c.factor - 1
	var cd types.CommonCircuitData
	cd.Config.NumRoutedWires = c.wires
	cd.QuotientDegreeFactor = c.factor
	cd.NumPartialProducts = npp
	p := &PlonkChip{api: api, commonData: cd}
	one := gl.NewVariable(c.X).ToQuadraticExtension()
	list := func(n uint64) []gl.QuadraticExtensionVariable {
		var l []gl.QuadraticExtensionVariable
		for i := uint64(0); i < n; i++ {
			l = append(l, one)
		}
		return l
	}
	openings := variables.OpeningSet{PlonkZs: list(1), PlonkZsNext: list(1), PartialProducts: list(npp)}
	res := p.checkPartialProducts(list(c.wires), list(c.wires), 0, openings)
	if uint64(len(res)) != npp+1 {
		return fmt.Errorf("unexpected number of checks")
	}
	return nil
}

func zzTry(wires, factor uint64) (panicked bool, msg string) {
	defer func() {
		if r := recover(); r != nil {
			panicked, msg = true, fmt.Sprint(r)
		}
	}()
	_, err := frontend.Compile(ecc.BN254.ScalarField(), r1cs.NewBuilder, &zzF5Circuit{wires: wires, factor: factor})
	if err != nil {
		return true, err.Error()
	}
	return false, ""
}

func TestZZReplayF5(t *testing.T) {
	p1, m1 := zzTry(4, 2)
	fmt.Printf("REPLAY-F5 divisible(4 wires, factor 2): refused=%v %s\n", p1, m1)
	p2, m2 := zzTry(3, 2)
	fmt.Printf("REPLAY-F5 ragged(3 wires, factor 2, 1 partial product as plonky2 prescribes): refused=%v %.80s\n", p2, m2)
	if !p1 && p2 {
		fmt.Println("REPLAY-F5 CONFIRMED: a configuration that plonky2 accepts makes the circuit definition panic")
	}
}
