package tests

// Replay of finding F4 on the real code: the inner circuit's verifier key (VerifierData) is a
// prover-chosen secret input of the wrapper circuits.  Nothing ties it to a fixed value, so a
// proof presented with the right key in which one commitment entry that no FRI query selects is
// altered is still accepted.  Run with run.sh (go test -overlay; nothing is written to /repo).

import (
	"fmt"
	"math/big"
	"sync"
	"testing"

	"github.com/consensys/gnark-crypto/ecc"
	"github.com/consensys/gnark/test"
	"github.com/wormhole-foundation/example-near-light-client/types"
	"github.com/wormhole-foundation/example-near-light-client/variables"
	"github.com/wormhole-foundation/example-near-light-client/verifier"
)

func TestZZReplayF4(t *testing.T) {
	dir := "../testdata/test_circuit"
	common := types.ReadCommonCircuitData(dir + "/common_circuit_data.json")
	load := func() (variables.ProofWithPublicInputs, variables.VerifierOnlyCircuitData) {
		pwp, _ := variables.DeserializeProofWithPublicInputs(types.ReadProofWithPublicInputs(dir + "/proof_with_public_inputs.json"))
		vd := variables.DeserializeVerifierOnlyCircuitData(types.ReadVerifierOnlyCircuitData(dir + "/verifier_only_circuit_data.json"))
		return pwp, vd
	}
	try := func(k int) error {
		pwp, vd := load()
		circuit := &verifier.VerifierCircuit{Proof: pwp.Proof, PublicInputs: pwp.PublicInputs, VerifierData: vd, CommonCircuitData: common}
		pwp2, vd2 := load()
		if k >= 0 {
			v := vd2.ConstantSigmasCap[k].(*big.Int)
			vd2.ConstantSigmasCap[k] = new(big.Int).Add(v, big.NewInt(1))
		}
		witness := &verifier.VerifierCircuit{Proof: pwp2.Proof, PublicInputs: pwp2.PublicInputs, VerifierData: vd2, CommonCircuitData: common}
		return test.IsSolved(circuit, witness, ecc.BN254.ScalarField())
	}
	n := 16
	errs := make([]error, n+1)
	var wg sync.WaitGroup
	sem := make(chan struct{}, 6)
	for k := -1; k < n; k++ {
		wg.Add(1)
		go func(k int) {
			defer wg.Done()
			sem <- struct{}{}
			defer func() { <-sem }()
			errs[k+1] = try(k)
		}(k)
	}
	wg.Wait()
	fmt.Printf("REPLAY-F4 unmodified-key-accepted=%v\n", errs[0] == nil)
	var accepted []int
	for k := 0; k < n; k++ {
		if errs[k+1] == nil {
			accepted = append(accepted, k)
		}
	}
	fmt.Printf("REPLAY-F4 altered-cap-entries-accepted=%v (of %d)\n", accepted, n)
	if errs[0] == nil && len(accepted) > 0 {
		fmt.Println("REPLAY-F4 CONFIRMED: the real VerifierCircuit accepts the proof with an altered verifier key")
	}
}
