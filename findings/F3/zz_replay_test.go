package tests

// Replay of finding F3 on the real code: CircuitFixed never width-checks the sixteen plonky2
// public inputs, so limb + p (same Goldilocks residue, hence same inner public-input hash) packs
// to a different on-chain value (> 2^128) that the real wrapper circuit accepts for the same
// inner proof.  Run with run.sh (go test -overlay; nothing is written to /repo).

import (
	"fmt"
	"math/big"
	"testing"

	"github.com/consensys/gnark-crypto/ecc"
	"github.com/consensys/gnark/frontend"
	"github.com/consensys/gnark/test"
	gl "github.com/wormhole-foundation/example-near-light-client/goldilocks"
	"github.com/wormhole-foundation/example-near-light-client/types"
	"github.com/wormhole-foundation/example-near-light-client/variables"
	"github.com/wormhole-foundation/example-near-light-client/verifier"
)

func zzPack(limbs []*big.Int) [4]frontend.Variable {
	var out [4]frontend.Variable
	for j := 0; j < 4; j++ {
		acc := new(big.Int)
		for i := 0; i < 4; i++ {
			acc.Lsh(acc, 32)
			acc.Add(acc, limbs[4*j+i])
		}
		out[j] = acc
	}
	return out
}

func TestZZReplayF3(t *testing.T) {
	dir := "../testdata/test_circuit"
	common := types.ReadCommonCircuitData(dir + "/common_circuit_data.json")
	build := func(delta *big.Int, idx int) (*verifier.CircuitFixed, *verifier.CircuitFixed, [4]frontend.Variable) {
		raw := types.ReadProofWithPublicInputs(dir + "/proof_with_public_inputs.json")
		pwp, pis := variables.DeserializeProofWithPublicInputs(raw)
		vd := variables.DeserializeVerifierOnlyCircuitData(types.ReadVerifierOnlyCircuitData(dir + "/verifier_only_circuit_data.json"))
		limbs := make([]*big.Int, len(pis))
		for i, v := range pis {
			limbs[i] = new(big.Int).SetUint64(v)
		}
		if delta != nil {
			limbs[idx].Add(limbs[idx], delta)
			pwp.PublicInputs[idx] = gl.NewVariable(new(big.Int).Set(limbs[idx]))
		}
		packed := zzPack(limbs)
		circuit := &verifier.CircuitFixed{ProofWithPis: pwp, VerifierData: vd, CommonCircuitData: common}
		witness := &verifier.CircuitFixed{PublicInputs: packed, ProofWithPis: pwp, VerifierData: vd, CommonCircuitData: common}
		return circuit, witness, packed
	}
	c0, w0, _ := build(nil, 0)
	if len(w0.ProofWithPis.PublicInputs) != 16 {
		t.Skip("test circuit does not have 16 public inputs")
	}
	err0 := test.IsSolved(c0, w0, ecc.BN254.ScalarField())
	fmt.Printf("REPLAY-F3 honest-accepted=%v err=%v\n", err0 == nil, err0)
	c1, w1, packed := build(gl.MODULUS, 5)
	err1 := test.IsSolved(c1, w1, ecc.BN254.ScalarField())
	big128 := new(big.Int).Lsh(big.NewInt(1), 128)
	fmt.Printf("REPLAY-F3 limb5-plus-p-accepted=%v packed[1]=%v above-2^128=%v err=%v\n", err1 == nil, packed[1], packed[1].(*big.Int).Cmp(big128) >= 0, err1)
	if err0 == nil && err1 == nil {
		fmt.Println("REPLAY-F3 CONFIRMED: a second set of limbs (and a public value above 2^128) is accepted for the same inner proof")
	}
}
