package poseidon

// Replay of finding F2 on the real code: with ReduceWithMaxBits(x, 192) in sBoxMonomial the
// quotient bound 2^192 * p exceeds the BN254 scalar field, so a malicious ReduceHint can wrap
// around r and make the real constraint system of Poseidon accept a second output.
// Run: go test -overlay ov.json -vet=off -run TestZZReplayF2 ./poseidon   (see run.sh)

import (
	"fmt"
	"math/big"
	"testing"

	"github.com/consensys/gnark-crypto/ecc"
	"github.com/consensys/gnark/constraint/solver"
	"github.com/consensys/gnark/frontend"
	"github.com/consensys/gnark/frontend/cs/r1cs"
	gl "github.com/wormhole-foundation/example-near-light-client/goldilocks"
)

var zzRecorded []*big.Int

func zzExportHint(_ *big.Int, inputs []*big.Int, results []*big.Int) error {
	zzRecorded = nil
	for _, in := range inputs {
		zzRecorded = append(zzRecorded, new(big.Int).Set(in))
	}
	results[0] = big.NewInt(0)
	return nil
}

type zzCircuit struct {
	In [12]frontend.Variable
}

func (c *zzCircuit) Define(api frontend.API) error {
	chip := NewGoldilocksChip(api)
	var st GoldilocksState
	for i := range st {
		st[i] = gl.NewVariable(c.In[i])
	}
	out := chip.Poseidon(st)
	var outs []frontend.Variable
	for i := range out {
		outs = append(outs, out[i].Limb)
	}
	_, err := api.Compiler().NewHint(zzExportHint, 1, outs...)
	return err
}

func TestZZReplayF2(t *testing.T) {
	solver.RegisterHint(zzExportHint)
	r := ecc.BN254.ScalarField()
	p := gl.MODULUS
	ccs, err := frontend.Compile(r, r1cs.NewBuilder, &zzCircuit{})
	if err != nil {
		t.Fatal(err)
	}
	var asg zzCircuit
	for i := range asg.In {
		asg.In[i] = big.NewInt(int64(i))
	}
	w, _ := frontend.NewWitness(&asg, r)
	// honest run
	if err := ccs.IsSolved(w); err != nil {
		t.Fatal("honest run rejected: ", err)
	}
	honest := append([]*big.Int(nil), zzRecorded...)
	// malicious run: the first ReduceHint call answers with the decomposition of x + r
	first := true
	evil := func(f *big.Int, inputs []*big.Int, results []*big.Int) error {
		x := new(big.Int).Set(inputs[0])
		if first {
			first = false
			x.Add(x, r)
		}
		results[0] = new(big.Int).Div(x, p)
		results[1] = new(big.Int).Rem(x, p)
		return nil
	}
	err = ccs.IsSolved(w, solver.OverrideHint(solver.GetHintID(gl.ReduceHint), evil))
	evilOut := append([]*big.Int(nil), zzRecorded...)
	differ := false
	for i := range honest {
		if i < len(evilOut) && honest[i].Cmp(evilOut[i]) != 0 {
			differ = true
		}
	}
	fmt.Printf("REPLAY-F2 malicious-witness-accepted=%v second-output=%v honest[0]=%v evil[0]=%v\n", err == nil, differ, honest[0], evilOut[0])
	if err == nil && differ {
		fmt.Println("REPLAY-F2 CONFIRMED: the real Poseidon constraint system accepts two different outputs for one input")
	}
}
